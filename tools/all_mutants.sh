#!/bin/bash
# tools/all_mutants.sh: runs every seeded change under seeded/ against the quick check of its own
# property (tools/try_mutant.sh: apply to /repo, check, git checkout).  /repo must be clean and no
# other check may run meanwhile.  About 50 s per change.
cd "$(dirname "$0")/.."
for d in seeded/C*; do
  id=$(basename "$d" | cut -d- -f1)
  echo "== $(basename "$d")"
  tools/try_mutant.sh "$PWD/$d/patch.diff" "$id" 2>&1 | cut -c1-200
done
echo ALLDONE
