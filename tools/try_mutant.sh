#!/bin/bash
# tools/try_mutant.sh <patch.diff> <check ids...>: applies a seeded change to /repo, runs the
# given quick checks against it, and undoes it straight afterwards.
patch="$1"; shift
cd /verif
if [ -n "$(git -C /repo status --porcelain)" ]; then echo "/repo is not clean"; exit 2; fi
git -C /repo apply "$patch" || { echo "patch does not apply"; exit 2; }
for id in "$@"; do
  out=$(VERIF_SEED=${VERIF_SEED:-20261003} ./check "$id" --tier ${TIER:-quick} 2>&1); rc=$?
  sig=$(echo "$out" | grep -m1 "^violation:\|^regress case" | cut -c1-220)
  echo "  $id exit=$rc $sig"
done
git -C /repo checkout -- . ; git -C /repo status --porcelain | head -3
