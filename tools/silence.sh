#!/bin/bash
# Runs every registered quick check with several seeds; prints anything that is not silent.
# usage: tools/silence.sh [seeds...]   (default: 1 2 3 4 5)
cd "$(dirname "$0")/.."
SEEDS="${@:-1 2 3 4 5}"
IDS=$(python3 -c "import json; print(' '.join(c['property_id'] for c in json.load(open('MANIFEST.json'))['checks']))")
bad=0
for id in $IDS; do
  for s in $SEEDS; do
    out=$(VERIF_SEED=$s ./check $id --tier ${TIER:-quick} 2>&1); rc=$?
    if [ $rc -ne 0 ] || echo "$out" | grep -q "^VIOLATION"; then
      echo "== $id seed=$s exit=$rc"; echo "$out" | grep -v "^proptest:" | cut -c1-600 | tail -5; bad=1
    fi
  done
  echo "$id done"
done
exit $bad
