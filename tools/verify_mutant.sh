#!/bin/bash
# tools/verify_mutant.sh <worktree> <id>: confirms that a seeded change (patch.diff +
# tests/demo_<id>.rs in the worktree) compiles, passes the existing suite, and that its
# demonstration fails with the change and passes without it.  (No git stash: the stash is
# shared between worktrees.)
wt="$1"; id="$2"; idl=$(echo "$id" | tr 'A-Z' 'a-z')
cd "$wt" || exit 2
export CARGO_NET_OFFLINE=true
demo="tests/demo_${idl}.rs"
[ -f patch.diff ] && [ -f "$demo" ] || { echo "$id: missing patch.diff or $demo"; exit 2; }
git checkout -q -- src ffi
git apply patch.diff || { echo "$id: patch does not apply"; exit 2; }
mv "$demo" /tmp/demo_hold_$idl.rs
suite=$(cargo test --workspace --offline 2>&1 | grep -E "^test result" | grep -vc " 0 failed")
mv /tmp/demo_hold_$idl.rs "$demo"
with=$(cargo test --offline --test "demo_${idl}" 2>&1 | grep -E "^test result" | tail -1)
git apply -R patch.diff
without=$(cargo test --offline --test "demo_${idl}" 2>&1 | grep -E "^test result" | tail -1)
git apply patch.diff
echo "$id: suite-failing-binaries-with-change=$suite | demo with change: $with | demo without: $without"
