#!/bin/bash
# Runs every registered quick check once on the current tree (default seed) and prints one line each.
cd "$(dirname "$0")/.."
IDS=$(python3 -c "import json; print(' '.join(c['property_id'] for c in json.load(open('MANIFEST.json'))['checks']))")
rc_all=0
for id in $IDS; do
  out=$(./check $id --tier quick 2>&1); rc=$?
  echo "$id exit=$rc $(echo "$out" | grep -v '^proptest:' | tail -1 | cut -c1-160)"
  [ $rc -ne 0 ] && rc_all=1
done
python3-vt - <<'PY'
import json, jsonschema, glob
s=json.load(open('/root/.vp/EVIDENCE.schema.json'))
bad=0
for f in sorted(glob.glob('/verif/evidence/*.json')):
    try:
        jsonschema.validate(json.load(open(f)), s)
    except Exception as e:
        bad+=1; print("INVALID", f, str(e)[:200])
print("evidence files valid" if not bad else "evidence problems: %d"%bad)
PY
exit $rc_all
