#!/bin/bash
# tools/process_mutant.sh <ID> [extra check ids...]: confirms the seeded change in /tmp/w10-<ID> (verify_mutant.sh), then,
# holding a lock on /repo, runs the property's own quick check against it (try_mutant.sh).  One line of result each.
id="$1"; shift
wt="${WT_PREFIX:-/tmp/w11-}$id"
cd /verif
tools/verify_mutant.sh "$wt" "$id" > "$wt/verify.log" 2>&1
cat "$wt/verify.log" | tail -1
(
  flock 8
  cp "$wt/patch.diff" /verif/work/try-$id.diff
  tools/try_mutant.sh /verif/work/try-$id.diff "$id" "$@" 2>&1 | tee "$wt/trial.log"
) 8>/verif/work/.repo.lock
