#!/usr/bin/env python3
"""Regenerates MANIFEST.json from the table below (keeps it valid at all times)."""
import json, os
HERE = os.path.dirname(os.path.dirname(os.path.abspath(__file__)))
ALL = ["C%02d" % i for i in range(1, 21)]

# id -> (level, technique, level text, level note, design ref)
CHECKS = {
 "C17": ("exploration",
         "exhaustive enumeration of all 65,536 codes and all table tags + bounded-exhaustive and proptest-generated tag strings against algebraic laws and a fixed reference list",
         "Exhaustive over the finite code space and over every tag the table can produce; generated search over tag strings. Laws: code preserved, tag total, tag->language->tag identity, table tags map to their own code, unknown language -> neutral, unknown region never another variant, ~36 pairs from the Windows LCID reference in both directions.",
         "Trusted: the fixed identifier/tag list (taken from MS-LCID). The table is documented as incomplete, so missing entries are not violations.",
         "DESIGN.md section 4, C17"),
}
CHECKS["C14"] = ("exploration",
  "exhaustive differential: every Unicode scalar x 26 code pages and every 1/2-byte sequence x 26 pages against encoding_rs encodings looked up by WHATWG label; proptest-generated strings across the 1024-byte buffer boundary; exhaustive identifier range",
  "Exhaustive on the finite sub-spaces named in the property (scalars x pages, 1/2-byte sequences x pages, identifiers -70,000..70,000), generated search on strings and byte strings. Laws: '?'-or-round-trip, compositionality, decode totality and agreement, agreement with the documented encoding, id lookup inverse.",
  "Trusted: encoding_rs mapping tables (not their assignment to pages). 21 (page, scalar) pairs where the dependency's encoder is lossy are open known findings.",
  "DESIGN.md section 4, C14")
CHECKS["C18"] = ("exploration",
  "enumerated tick-boundary neighbourhoods + proptest-generated times and pairs against an exact integer reference (round-trip within 100 ns, idempotence, monotonicity, saturation), in memory and through save/reopen",
  "Enumerates every tick boundary +-3 ticks x sub-tick nanoseconds around 1601, 1970 and the tick maximum, then millions of generated times (uniform, log-uniform around the anchors, platform extremes) and near pairs.",
  "Trusted: std::time arithmetic and the harness's i128 reference arithmetic.",
  "DESIGN.md section 4, C18")
CHECKS["C13"] = ("exploration",
  "bounded-exhaustive enumeration of expression trees (depth <= 1 over all 18 operators x 24 leaves, depth 2 with one leaf side) + proptest-generated trees to depth 5, against a reference evaluator that returns the set of accepted results; also through select/update/delete conditions",
  "Exhaustive on depth <= 1 (the sub-space the property names) and a depth-2 slice; generated search beyond. Oracle: independent reference evaluator (exact where documented, set of conventional answers where the documentation leaves a choice), no-panic for building and evaluating, literal form == column form.",
  "Trusted: the harness's reference evaluator (refeval.rs, written from the rustdoc of Expr).",
  "DESIGN.md section 4, C13 and Appendix B")
CHECKS["C19"] = ("exploration",
  "enumeration of every (parent, child, side) operator pair + proptest-generated trees and queries; to_string() is read back by an independent precedence-climbing reader (cross-checked against the project's own pest grammar) and compared by reference evaluation on all small assignments",
  "All parenthesisation decisions at depth 2 are enumerated; generated trees to depth 5 and the four query kinds with nested joins. Oracle: harness reader built from the precedence ladder of the property + reference evaluator on 49/343 assignments + column/literal multisets + structural comparison of queries; second reader = examples/msiquery.pest on parenthesis-free texts.",
  "Trusted: the harness reader and reference evaluator; the pest grammar only as a cross-check of the reader (it has no ^ operator and is exponential on nested parentheses).",
  "DESIGN.md section 4, C19")
CHECKS["C07"] = ("exploration",
  "bounded-exhaustive strings per category over adversarial alphabets + category-shaped and proptest-generated strings against reference grammars; enumerated (column kind, range, value) grid for is_valid_value; generated insert/update gate cases on a real package",
  "Enumerates all strings up to length 5 (6 in thorough) over ~10 symbols for each of the ten categories with a grammar, shaped boundary strings, and a (type x range x nullable x enumeration x value) grid; generated search for the insert/update gate including arities 0..33 and duplicate keys. Oracle: reference predicates written from the rustdoc of Category and the property text.",
  "Trusted: the reference grammars in model.rs. Declared don't-care set: leading '+' in integer text, non-ASCII cased letters in Upper/LowerCase, multi-byte characters in the 8.3 part of Cabinet.",
  "DESIGN.md section 4, C07 and Appendix B")
CHECKS["C01"] = ("exploration",
  "model-driven (late-bound) operation sequences generated by proptest with reopen points in all three close modes + sweep driver (reopen after every position x every mode) + directed needle cases; round-trip oracle: API snapshot before close == snapshot after Package::open(saved bytes)",
  "Generated search over histories x values x close points: 60,000 sequences + 1,500 sweeps (x up to 27 variants) + 41 directed cases (each of 26 code pages with strings from its repertoire, package types, long-string boundary lengths, integer boundaries) in the quick tier; 600,000 / 15,000 in thorough. Crash-after-flush is the FlushAndCopy close mode (bytes copied from the live medium when flush returns).",
  "Trusted: the harness observer (public API only) and the shared-buffer medium. Torn writes in the middle of a flush are outside the statement.",
  "DESIGN.md section 4, C01")
CHECKS["C03"] = ("exploration",
  "model-based stateful testing: proptest-generated late-bound operation sequences applied to the package and to an in-memory relational model, full snapshot comparison after every step; bounded-exhaustive enumeration of all op sequences up to depth 4/5 over a 12-op alphabet",
  "Exhaustive for all sequences of length <= 4 (5 in thorough) over 12 concrete ops (insert single/batch, update value/all/key, key collision, delete one/all/by value, select with projection, reopen) on a two-column table with a frame table; 60,000 (600,000) generated sequences with conditions, projections, composite/nullable/string keys and reopen points.",
  "Trusted: the reference model and reference evaluator. Conditions are generated so that their truth value is specified (comparisons between a column and a literal of its type, null-guarded).",
  "DESIGN.md section 4, C03")
CHECKS["C05"] = ("exploration",
  "stateful invariant checking: proptest-generated operation sequences weighted to key-assigning updates, batch inserts and delete/insert cycles; invariant (unique keys, ascending order, valid cells) evaluated on the API-reported schema and rows after every step and after every reopen",
  "80,000 (800,000) generated histories; the invariant needs no model, only what the API returns.",
  "Trusted: the reference validity predicate (model.rs). A null read back in a non-nullable string column counts as the empty string.",
  "DESIGN.md section 4, C05")
CHECKS["C08"] = ("exploration",
  "proptest-generated operation sequences; the bytes saved after every prefix (flush on the live package, every close mode, and fresh-package prefix replay) are decoded by an independent MSI decoder and compared differentially with the API snapshot; pool reference counts recomputed from all table cells",
  "25,000 (250,000) histories with per-step decoding plus 4,000 (40,000) prefix sweeps; thorough adds the reference-count cap family (> 65,535 references to one string).",
  "Trusted: the independent decoder (fmt.rs, self-tested against literal fixtures) and the cfb crate as a named-byte-stream store. Only the column type-word bits the format description fixes are compared (size, string, nullable, key, localizable, valid).",
  "DESIGN.md section 4, C08")
CHECKS["C10"] = ("exploration",
  "proptest-generated sequences of summary setters/clearers/code-page switches/reopens against a reference record; the saved summary stream is parsed by a strict independent MS-OLEPS parser and compared by property id",
  "100,000 (1,000,000) generated sequences; every case ends with a save and reopen. Two oracles: getters vs model (immediately, before close, after reopen) and independent strict parse of the raw stream (alignment, bounds, typed values, contiguity, exact section size).",
  "Trusted: the independent property-set parser and the code-page oracle. Strings with unrepresentable characters are only checked for no panic / well-formed stream / other properties intact.",
  "DESIGN.md section 4, C10")
CHECKS["C11"] = ("exploration",
  "model-based stateful testing of the stream interface: proptest-generated sequences over adversarial name classes and content sizes, model keyed by the container's name-comparison class of the independently packed name; raw root entries cross-checked through the container after each save",
  "120,000 (1,200,000) generated sequences plus a write/reopen/read/remove cycle for each of ~80 fixed names (limit lengths 61/62/63, packing ranges, table marker, path separators, NUL, case variants, internal stream names).",
  "Trusted: the independent name packing in fmt.rs (fixtures from the format notes) and cfb's documented comparison rule. has_stream is asserted only for well-formed names.",
  "DESIGN.md section 4, C11")
CHECKS["C12"] = ("exploration",
  "differential testing against a reference query executor: proptest-generated select trees (filters, projections, inner/left joins, joins of joins and of sub-selects, injected unknown names) x generated small table contents with nulls",
  "200,000 (2,000,000) generated (query, data) pairs, depth 3 (4). The reference executor implements the documented naming rule, nested-loop order, null padding and nullability, and says which queries must be rejected.",
  "Trusted: the reference executor and evaluator. Queries that refer to a duplicated column name (plain self-joins) are skipped: resolution is undocumented.",
  "DESIGN.md section 4, C12 and Appendix B")
CHECKS["C06"] = ("exploration",
  "proptest-generated column lists over every builder option (70 % coerced into the representable core, 30 % free); round-trip oracle through save/reopen plus differential decoding of _Columns/_Validation with the independent decoder; positive clause for the representable core",
  "100,000 (1,000,000) generated table definitions of 1..32 columns, all three close modes.",
  "Trusted: the independent decoder; the representable-core predicate (in_core) only says what must be accepted, refusal is never demanded outside the clearly unrepresentable set.",
  "DESIGN.md section 4, C06")
CHECKS["C04"] = ("exploration",
  "proptest-generated valid prefixes followed by one invalid call from a 26-kind catalogue (late-bound to the reached state, which may also be a foreign file without _Validation, a full pool or a catalog with orphan rows; late-bound to the reached state); metamorphic oracle: snapshot, reopened snapshot and independently decoded string pool are identical before and after every call that returns Err",
  "60,000 (600,000) generated (state, invalid call) pairs; every catalogue entry is exercised hundreds of times per quick run (see classes in the evidence).",
  "Trusted: the observer and the independent decoder. Calls that unexpectedly return Ok are left to C06/C07/C20.",
  "DESIGN.md section 4, C04")
CHECKS["C20"] = ("exploration",
  "directed boundary generators per capacity limit (L-1, L, L+1; one batch, incrementally across reopen, after deletions) with the expensive near-limit states written by the independent encoder; oracle: Err beyond / Ok within, no panic, nothing changed on Err, saved file reopens and equals the observable state",
  "53 directed cases in the quick tier (columns, rows, distinct strings through insert and through create_table, table / column / stream name lengths), ~100 in thorough. This is needle search by construction: random generation would not reach 65,536 rows or strings.",
  "Trusted: the independent encoder for the near-full string pools (self-checked by decoding: exactly N entries). For name lengths the property gives no number, so the oracle there is only Ok => round trip, Err => unchanged.",
  "DESIGN.md section 4, C20")
CHECKS["C02"] = ("exploration",
  "format-level generation (proptest strategies over an abstract database) written by an independent encoder of the MSI format; differential oracle: Package::open + API snapshot == abstract database; then API changes, save, and independent decoding of the result",
  "20,000 (200,000) generated databases covering both reference widths, holes, duplicates, over-counts, long strings, references above 65,535, all code-page ids including 0, up to 32 columns in any order, width-1 integers, unsorted rows, absent _Validation, arbitrary property-set layouts, all CLSIDs (feature counts in the evidence).",
  "Trusted: the independent encoder/decoder (fmt.rs, enc.rs; round-trip self-tests and literal fixtures) and the cfb crate. Only well-formed inputs are generated.",
  "DESIGN.md section 4, C02")
CHECKS["C16"] = ("exploration",
  "proptest-generated read-only sessions on library-written, foreign (independently encoded) and signed packages over a counting medium; oracle: zero write calls after every call and after each of the three close modes, bytes identical",
  "60,000 (600,000) sessions; sources come from the C01 sequence generator and the C02 database generator.",
  "Trusted: the counting medium (harness-side Read+Write+Seek wrapper).",
  "DESIGN.md section 4, C16")
CHECKS["C09"] = ("exploration",
  "structure-aware fuzzing with proptest: valid databases from the independent encoder + format-level corruption operators, raw bytes and byte edits; in-process battery (every read and mutating operation + flush) as oracle with panic capture by location, deterministic I/O-call budget and a counting allocator; thorough adds coverage-guided libFuzzer targets with the same battery and an FFI worker process",
  "16,000 structured corruptions + 6,000 raw cases + 400 FFI worker runs in the quick tier (200,000 / 100,000 / 5,000 in thorough); per-operator counts in the evidence. If the process itself dies, the check script replays the cases that were in flight one per process and reports the one that reproduces the death.",
  "Trusted: panic hook + catch_unwind, the counting medium and allocator. The cfb dependency is built without its own debug assertions (they fire on malformed containers and abort through lock poisoning; they are the dependency's). A pure CPU loop would be a watchdog exit 2.",
  "DESIGN.md section 4, C09")
CHECKS["C15"] = ("fault_enumeration",
  "fault-plan enumeration over a fault-injecting medium: every write, read and seek index of three fixed scripts x {transient, persistent}; oracle: reopen of the medium's bytes at each flush / into_inner that returned Ok under the all-Ok premise == the fault-free run's state; both tiers add proptest-generated scripts under plans whose fault index is a generated fraction of the script's own call count",
  "Exhaustive over the call indices of scripts (a) (fresh package: tables, 20,000-byte stream, summary, two flushes, drop table) and (b) (prepared package with a 3,200-string pool and > 8 KiB tables): and (c) (tables of exactly 4,096 / 8,192 bytes): ~69,000 plans in both tiers; plus 12,000 (200,000) generated (script, plan) pairs, 97 % of which hit their fault.",
  "Trusted: the fault-injecting medium and the differential reference (the fault-free run of the same script, whose correctness is C01's subject). Dropping a Package without flush promises nothing and is not judged.",
  "DESIGN.md section 4, C15")
NOT_YET = {}

def main():
    checks = []
    for pid in ALL:
        if pid not in CHECKS:
            continue
        level, technique, text, note, ref = CHECKS[pid]
        checks.append({
            "property_id": pid,
            "quick_cmd": "./check %s --tier quick" % pid,
            "thorough_cmd": "./check %s --tier thorough" % pid,
            "evidence_file": "evidence/%s.json" % pid,
            "replay_cmd_template": "./check %s --replay {path}" % pid,
            "engine": "msiverif",
            "level_claimed": {"category": level, "text": text, "design_ref": ref},
            "level_note": note,
            "technique": technique,
        })
    na = [{"property_id": p, "reason": NOT_YET.get(p, "check not built yet in this session (property-based testing applies; see DESIGN.md section 4)")}
          for p in ALL if p not in CHECKS]
    manifest = {
        "version": 1,
        "setup_cmd": "./setup.sh",
        "hooks": {
            "guard": "msi_verif",
            "enable": "no hooks are needed: every observation point is public API, the bytes of the medium or the process exit status (nothing in /repo is guarded by the flag)",
            "baseline_off_cmd": "cd /repo && cargo test --workspace --no-fail-fast --offline",
            "source_commits": [],
            "add_only": True,
        },
        "engines": [
            {"name": "msiverif", "path": "harness/msiverif", "serves_properties": sorted(CHECKS.keys()),
             "kind_free_text": "Rust harness (proptest 1.11 strategies + TestRunner with fixed seeds, enumerating generators, reference model, independent MSI codec, fault-injecting media); path-depends on /repo so every check rebuilds from the current working tree"},
        ],
        "checks": checks,
        "notes": "Exit codes: 0 held, 1 VIOLATION line printed, 2 inconclusive (build failure / watchdog). known_findings.json lists open findings (KNOWN-FINDING lines) and fixed ones; regress/ holds shrunk cases replayed at the start of every run.",
        "not_applicable": na,
    }
    with open(os.path.join(HERE, "MANIFEST.json"), "w") as f:
        json.dump(manifest, f, indent=1)
        f.write("\n")

if __name__ == "__main__":
    main()
