#!/usr/bin/env python3
"""tools/store_mutant.py <round-letter> <origin text> <ID> [<ID>...]: copies a confirmed seeded change
from its scratch worktree /tmp/w<N>-<ID> (patch.diff, tests/demo_<id>.rs, NOTES.md, verify.log) to
/verif/seeded/<ID>-<letter>/ and writes the first half of meta.json (the trial results are added by
tools/record_trial.py)."""
import json, os, shutil, sys, glob

letter, origin, ids = sys.argv[1], sys.argv[2], sys.argv[3:]
wtprefix = os.environ.get("WT_PREFIX", "/tmp/w11-")
for pid in ids:
    wt = wtprefix + pid
    dst = f"/verif/seeded/{pid}-{letter}"
    os.makedirs(dst, exist_ok=True)
    idl = pid.lower()
    for src in ("patch.diff", f"tests/demo_{idl}.rs", "NOTES.md", "verify.log"):
        p = os.path.join(wt, src)
        if os.path.exists(p):
            shutil.copy(p, os.path.join(dst, os.path.basename(src)))
    notes = open(os.path.join(wt, "NOTES.md")).read() if os.path.exists(os.path.join(wt, "NOTES.md")) else ""
    verify = open(os.path.join(wt, "verify.log")).read().strip() if os.path.exists(os.path.join(wt, "verify.log")) else ""
    meta = {
        "property": pid,
        "origin": origin,
        "what_it_changes": "",
        "needs_to_manifest": "",
        "confirmed": {
            "how": "tools/verify_mutant.sh in the scratch worktree: existing suite with the change (demo moved aside), demo with the change, demo after git apply -R",
            "result": verify,
        },
    }
    mp = os.path.join(dst, "meta.json")
    if os.path.exists(mp):
        old = json.load(open(mp))
        old.update({k: v for k, v in meta.items() if k not in old or not old[k]})
        meta = old
    json.dump(meta, open(mp, "w"), indent=1)
    print(pid, "stored", dst)
