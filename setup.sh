#!/bin/bash
# Builds the verification harness offline from files on disk only.
set -eu
VERIF_DIR="$(cd "$(dirname "${BASH_SOURCE[0]}")" && pwd)"
export CARGO_NET_OFFLINE=true
mkdir -p "$VERIF_DIR/work" "$VERIF_DIR/evidence" "$VERIF_DIR/replays"
cd "$VERIF_DIR/harness"
cargo build --release --offline 2>&1 | tail -3
echo "setup ok"
