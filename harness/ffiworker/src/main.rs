//! Calls the two FFI entry points of msi_ffi on a file, the way a C caller
//! would: get_information(path), then get_table(path, name) for every table
//! name it reported.  A panic inside an exported function cannot unwind and
//! aborts the process; the parent observes the exit status.
use safer_ffi::prelude::*;

/// Layout of msi_ffi's `MsiInformation` as published in its generated C header.
#[repr(C)]
pub struct MsiInformation {
    arch: repr_c::String,
    author: repr_c::String,
    comments: repr_c::String,
    creating_application: repr_c::String,
    creation_time: repr_c::String,
    languages: repr_c::Vec<repr_c::String>,
    subject: repr_c::String,
    title: repr_c::String,
    uuid: repr_c::String,
    word_count: i32,
    has_digital_signature: bool,
    table_names: repr_c::Vec<repr_c::String>,
}

extern "C" {
    fn get_information(path: char_p::Ref<'_>) -> MsiInformation;
    fn free_information(info: MsiInformation);
    fn get_table(path: char_p::Ref<'_>, table_name: char_p::Ref<'_>) -> repr_c::Vec<repr_c::Vec<repr_c::String>>;
    fn free_table(table: repr_c::Vec<repr_c::Vec<repr_c::String>>);
}

fn main() {
    // keep the crate's symbols linked in
    let _keep: fn(&str, String) -> std::io::Result<()> = msi_ffi::generate_headers;
    let args: Vec<String> = std::env::args().collect();
    let mut rows_total = 0usize;
    for path in &args[1..] {
        let cpath = char_p::new(path.as_str());
        let info = unsafe { get_information(cpath.as_ref()) };
        let names: Vec<String> = info.table_names.iter().map(|s| s.to_string()).collect();
        let _ = (info.creation_time.len(), info.title.len(), info.languages.len(), info.word_count, info.has_digital_signature);
        unsafe { free_information(info) };
        for n in names.iter().chain(["NoSuchTable".to_string(), "_Validation".to_string()].iter()) {
            if n.contains('\0') {
                continue;
            }
            let cn = char_p::new(n.as_str());
            let t = unsafe { get_table(cpath.as_ref(), cn.as_ref()) };
            rows_total += t.len();
            unsafe { free_table(t) };
        }
    }
    println!("ffi ok: {} files, {} rows", args.len() - 1, rows_total);
}
