#![no_main]
//! Coverage-guided byte-level fuzzing of Package::open + the C09 battery.
//! A panic anywhere aborts (libfuzzer's hook) and leaves the input as an
//! artifact; the battery's own verdicts (I/O budget) are turned into panics.
use libfuzzer_sys::fuzz_target;

fuzz_target!(|data: &[u8]| {
    if let Err(f) = verifcore::battery::run_battery(data, false) {
        panic!("{}: {}", f.sig, f.detail);
    }
});
