#![no_main]
//! Coverage-guided byte-level fuzzing of Package::open + the C09 battery.
//! The battery's verdicts (panic with its location, I/O budget) abort the
//! process unless they carry the signature of an open known finding, and
//! libFuzzer keeps the input as an artifact.
use libfuzzer_sys::fuzz_target;

fuzz_target!(|data: &[u8]| {
    verifcore::battery::fuzz_judge(data);
});
