#![no_main]
//! Structure-aware fuzzing: the fuzzer's bytes drive the proptest strategy of
//! C09 (abstract database + corruption plan) through the pass-through RNG, the
//! independent encoder writes the file, the battery judges it.
use libfuzzer_sys::fuzz_target;
use proptest::strategy::{Strategy, ValueTree};
use proptest::test_runner::{Config, RngAlgorithm, TestRng, TestRunner};

fuzz_target!(|data: &[u8]| {
    if data.len() < 8 {
        return;
    }
    let rng = TestRng::from_seed(RngAlgorithm::PassThrough, data);
    let mut runner = TestRunner::new_with_rng(Config { failure_persistence: None, ..Config::default() }, rng);
    let case = match verifcore::props::c09::case_strategy().new_tree(&mut runner) {
        Ok(t) => t.current(),
        Err(_) => return,
    };
    let bytes = match verifcore::props::c09::build(&case) {
        Ok(b) => b,
        Err(_) => return,
    };
    if let Err(f) = verifcore::battery::run_battery(&bytes, false) {
        panic!("{}: {} -- case {}", f.sig, f.detail, serde_json_string(&case));
    }
});

fn serde_json_string(case: &verifcore::props::c09::Case) -> String {
    format!("{:?}", case).chars().take(2000).collect()
}
