#![no_main]
//! Structure-aware fuzzing: the first 8 bytes of the input select a valid
//! abstract database (they seed C09's proptest strategy), every further
//! 8-byte record is one format-level corruption operator; the independent
//! encoder writes the file, the battery judges it.
use libfuzzer_sys::fuzz_target;

fuzz_target!(|data: &[u8]| {
    let case = match verifcore::props::c09::case_from_fuzz_bytes(data) {
        Some(c) => c,
        None => return,
    };
    let bytes = match verifcore::props::c09::build(&case) {
        Ok(b) => b,
        Err(_) => return,
    };
    verifcore::battery::fuzz_judge(&bytes);
});
