//! The project's own query grammar (`examples/msiquery.pest`), compiled into
//! the harness as a *second* reader of printed expressions (C19 cross-check of
//! the harness reader).  The grammar has no `^` operator.

use crate::refeval::{Bin, Un, E, V};
use pest::iterators::Pair;
use pest::Parser;

#[derive(pest_derive::Parser)]
#[grammar = "/repo/examples/msiquery.pest"]
pub struct QueryParser;

fn unescape_free(s: &str) -> Option<String> {
    if s.contains('\\') {
        None
    } else {
        Some(s.to_string())
    }
}

fn fold_chain(pair: Pair<Rule>, pick: &dyn Fn(Rule) -> Option<Bin>) -> Option<E> {
    let mut it = pair.into_inner();
    let mut lhs = conv(it.next()?)?;
    while let Some(op) = it.next() {
        let bin = pick(op.as_rule())?;
        let rhs = conv(it.next()?)?;
        lhs = E::bin(bin, lhs, rhs);
    }
    Some(lhs)
}

pub fn conv(pair: Pair<Rule>) -> Option<E> {
    match pair.as_rule() {
        Rule::ExprOr => fold_chain(pair, &|r| if r == Rule::KwOr { Some(Bin::Or) } else { None }),
        Rule::ExprAnd => fold_chain(pair, &|r| if r == Rule::KwAnd { Some(Bin::And) } else { None }),
        Rule::ExprNot => {
            let mut it = pair.into_inner();
            let _kw = it.next()?;
            Some(E::un(Un::Not, conv(it.next()?)?))
        }
        Rule::ExprCmp => fold_chain(pair, &|r| match r {
            Rule::OpGe => Some(Bin::Ge),
            Rule::OpGt => Some(Bin::Gt),
            Rule::OpLe => Some(Bin::Le),
            Rule::OpLt => Some(Bin::Lt),
            Rule::OpNeq => Some(Bin::Ne),
            Rule::OpEq => Some(Bin::Eq),
            _ => None,
        }),
        Rule::ExprBitOr => fold_chain(pair, &|r| if r == Rule::OpBitOr { Some(Bin::BitOr) } else { None }),
        Rule::ExprBitAnd => fold_chain(pair, &|r| if r == Rule::OpBitAnd { Some(Bin::BitAnd) } else { None }),
        Rule::ExprShift => fold_chain(pair, &|r| match r {
            Rule::OpShl => Some(Bin::Shl),
            Rule::OpShr => Some(Bin::Shr),
            _ => None,
        }),
        Rule::ExprSum => fold_chain(pair, &|r| match r {
            Rule::OpPlus => Some(Bin::Add),
            Rule::OpMinus => Some(Bin::Sub),
            _ => None,
        }),
        Rule::ExprProd => fold_chain(pair, &|r| match r {
            Rule::OpStar => Some(Bin::Mul),
            Rule::OpSlash => Some(Bin::Div),
            _ => None,
        }),
        Rule::ExprNeg => {
            let mut it = pair.into_inner();
            let _op = it.next()?;
            Some(E::un(Un::Neg, conv(it.next()?)?))
        }
        Rule::ExprBitNot => {
            let mut it = pair.into_inner();
            let _op = it.next()?;
            Some(E::un(Un::BitNot, conv(it.next()?)?))
        }
        Rule::KwNull => Some(E::Lit(V::Null)),
        Rule::KwTrue => Some(E::Lit(V::Int(1))),
        Rule::KwFalse => Some(E::Lit(V::Int(0))),
        Rule::Integer => {
            let n: i64 = pair.as_str().parse().ok()?;
            if n < i32::MIN as i64 || n > i32::MAX as i64 {
                // e.g. 2147483648 under a unary minus; normalised by the caller
                return Some(E::Lit(V::Str(format!("#int:{n}"))));
            }
            Some(E::Lit(V::Int(n as i32)))
        }
        Rule::String => {
            let inner = pair.into_inner().next()?;
            Some(E::Lit(V::Str(unescape_free(inner.as_str())?)))
        }
        Rule::CompoundIdent => Some(E::Col(pair.as_str().to_string())),
        _ => None,
    }
}

/// Folds `-<integer literal>` into a negative literal (the grammar reads "-5"
/// as a negation of 5; the value is the same).
pub fn normalise_neg(e: &E) -> E {
    match e {
        E::Un(Un::Neg, a) => {
            let a = normalise_neg(a);
            match &a {
                E::Lit(V::Int(n)) if *n != i32::MIN && *n >= 0 => E::Lit(V::Int(-*n)),
                E::Lit(V::Str(s)) if s == "#int:2147483648" => E::Lit(V::Int(i32::MIN)),
                _ => E::un(Un::Neg, a),
            }
        }
        E::Un(op, a) => E::un(*op, normalise_neg(a)),
        E::Bin(op, a, b) => E::bin(*op, normalise_neg(a), normalise_neg(b)),
        other => other.clone(),
    }
}

/// Parses `text` as the WHERE expression of a DELETE query with the project's
/// grammar.  `None` = the grammar does not accept the text (e.g. it uses `^`).
pub fn parse_expr(text: &str) -> Option<E> {
    // The PEG grammar re-parses each operand once per precedence level, so
    // its cost grows exponentially with parenthesis nesting (seconds at depth
    // two); it is only consulted on parenthesis-free texts.
    if text.contains('(') || text.len() > 200 {
        return None;
    }
    let q = format!("DELETE FROM T WHERE {}", text);
    let mut pairs = QueryParser::parse(Rule::QueryList, &q).ok()?;
    let del = pairs.next()?;
    if del.as_rule() != Rule::QueryDelete {
        return None;
    }
    let mut expr = None;
    for p in del.into_inner() {
        match p.as_rule() {
            Rule::KwDelete | Rule::KwFrom | Rule::Ident | Rule::KwWhere => {}
            _ => expr = conv(p),
        }
    }
    expr.map(|e| normalise_neg(&e))
}

/// True when the project's grammar accepts `text` as a complete query list.
pub fn accepts_query(text: &str) -> bool {
    QueryParser::parse(Rule::QueryList, text).is_ok()
}
