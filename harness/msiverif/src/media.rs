//! Harness-side media (generic `F: Read + Write + Seek`; no hooks needed).

use std::cell::RefCell;
use std::io::{self, Read, Seek, SeekFrom, Write};
use std::rc::Rc;

/// A cursor over shared bytes: the harness can copy what is "on the medium"
/// at any instant while the package is alive, and after it was dropped.
#[derive(Clone)]
pub struct SharedBuf {
    pub data: Rc<RefCell<Vec<u8>>>,
    /// what a crash would leave behind: the image as of the last `flush()` of
    /// the medium (writes since then sit in a volatile cache, as with a
    /// `BufWriter` or an OS page cache)
    durable: Rc<RefCell<Vec<u8>>>,
    pos: u64,
}

impl SharedBuf {
    pub fn new(bytes: Vec<u8>) -> SharedBuf {
        SharedBuf { durable: Rc::new(RefCell::new(bytes.clone())), data: Rc::new(RefCell::new(bytes)), pos: 0 }
    }
    /// The bytes that are safely on the medium: everything written before the
    /// medium's own `flush()` was last called.
    pub fn durable_bytes(&self) -> Vec<u8> {
        self.durable.borrow().clone()
    }
    pub fn bytes(&self) -> Vec<u8> {
        self.data.borrow().clone()
    }
    /// Same as `bytes` (use where `std::io::Read` is in scope, whose by-value
    /// `bytes()` would otherwise be selected).
    pub fn contents(&self) -> Vec<u8> {
        self.data.borrow().clone()
    }
    pub fn handle(&self) -> Rc<RefCell<Vec<u8>>> {
        self.data.clone()
    }
}

impl Read for SharedBuf {
    fn read(&mut self, buf: &mut [u8]) -> io::Result<usize> {
        let data = self.data.borrow();
        let start = (self.pos as usize).min(data.len());
        let n = buf.len().min(data.len() - start);
        buf[..n].copy_from_slice(&data[start..start + n]);
        self.pos += n as u64;
        Ok(n)
    }
}

impl Write for SharedBuf {
    fn write(&mut self, buf: &[u8]) -> io::Result<usize> {
        let mut data = self.data.borrow_mut();
        let start = self.pos as usize;
        if start > data.len() {
            data.resize(start, 0);
        }
        let end = start + buf.len();
        if end > data.len() {
            data.resize(end, 0);
        }
        data[start..end].copy_from_slice(buf);
        self.pos = end as u64;
        Ok(buf.len())
    }
    fn flush(&mut self) -> io::Result<()> {
        let image = self.data.borrow().clone();
        *self.durable.borrow_mut() = image;
        Ok(())
    }
}

impl Seek for SharedBuf {
    fn seek(&mut self, from: SeekFrom) -> io::Result<u64> {
        let len = self.data.borrow().len() as i128;
        let new = match from {
            SeekFrom::Start(p) => p as i128,
            SeekFrom::End(d) => len + d as i128,
            SeekFrom::Current(d) => self.pos as i128 + d as i128,
        };
        if new < 0 {
            return Err(io::Error::new(io::ErrorKind::InvalidInput, "seek before start"));
        }
        self.pos = new as u64;
        Ok(self.pos)
    }
}

// ------------------------------------------------------------------------- //

#[derive(Clone, Default, Debug)]
pub struct Counts {
    pub reads: u64,
    pub writes: u64,
    pub seeks: u64,
    pub flushes: u64,
    pub bytes_written: u64,
    pub bytes_read: u64,
}

/// What kind of call a fault plan targets.
#[derive(Clone, Copy, Debug, PartialEq, Eq, Hash, serde::Serialize, serde::Deserialize)]
pub enum Kind {
    Write,
    Read,
    Seek,
}

/// A fault plan: fail the k-th call (0-based) of `kind`, once or from then on.
#[derive(Clone, Copy, Debug, PartialEq, Eq, Hash, serde::Serialize, serde::Deserialize)]
pub struct Plan {
    pub kind: Kind,
    pub k: u64,
    pub persistent: bool,
}

/// Counts calls and injects faults; optionally enforces an I/O-call budget
/// (deterministic hang detector).
pub struct Instrumented {
    inner: SharedBuf,
    pub counts: Rc<RefCell<Counts>>,
    pub plan: Option<Plan>,
    pub fault_hits: Rc<RefCell<u64>>,
    /// total read+write+seek calls allowed (0 = unlimited)
    pub budget: u64,
    pub budget_exceeded: Rc<RefCell<bool>>,
    /// how many of the next flush() calls of the medium fail
    pub flush_failures: Rc<RefCell<u32>>,
}

impl Instrumented {
    pub fn new(inner: SharedBuf) -> Instrumented {
        Instrumented {
            inner,
            counts: Rc::new(RefCell::new(Counts::default())),
            plan: None,
            fault_hits: Rc::new(RefCell::new(0)),
            budget: 0,
            budget_exceeded: Rc::new(RefCell::new(false)),
            flush_failures: Rc::new(RefCell::new(0)),
        }
    }
    pub fn with_plan(mut self, plan: Option<Plan>) -> Instrumented {
        self.plan = plan;
        self
    }
    pub fn with_budget(mut self, budget: u64) -> Instrumented {
        self.budget = budget;
        self
    }
    pub fn shared(&self) -> SharedBuf {
        self.inner.clone()
    }
    fn fault(&self, kind: Kind, index: u64) -> io::Result<()> {
        if self.budget > 0 {
            let c = self.counts.borrow();
            if c.reads + c.writes + c.seeks > self.budget {
                *self.budget_exceeded.borrow_mut() = true;
                return Err(io::Error::new(io::ErrorKind::Other, "verif: I/O budget exceeded"));
            }
        }
        if let Some(p) = self.plan {
            if p.kind == kind && (index == p.k || (p.persistent && index > p.k)) {
                *self.fault_hits.borrow_mut() += 1;
                return Err(io::Error::new(io::ErrorKind::Other, "verif: injected fault"));
            }
        }
        Ok(())
    }
}

impl Read for Instrumented {
    fn read(&mut self, buf: &mut [u8]) -> io::Result<usize> {
        let idx = {
            let mut c = self.counts.borrow_mut();
            c.reads += 1;
            c.reads - 1
        };
        self.fault(Kind::Read, idx)?;
        let n = self.inner.read(buf)?;
        self.counts.borrow_mut().bytes_read += n as u64;
        Ok(n)
    }
}

impl Write for Instrumented {
    fn write(&mut self, buf: &[u8]) -> io::Result<usize> {
        let idx = {
            let mut c = self.counts.borrow_mut();
            c.writes += 1;
            c.writes - 1
        };
        self.fault(Kind::Write, idx)?;
        let n = self.inner.write(buf)?;
        self.counts.borrow_mut().bytes_written += n as u64;
        Ok(n)
    }
    fn flush(&mut self) -> io::Result<()> {
        self.counts.borrow_mut().flushes += 1;
        {
            let mut left = self.flush_failures.borrow_mut();
            if *left > 0 {
                *left -= 1;
                return Err(io::Error::new(io::ErrorKind::Other, "verif: injected flush failure"));
            }
        }
        self.inner.flush()
    }
}

impl Seek for Instrumented {
    fn seek(&mut self, from: SeekFrom) -> io::Result<u64> {
        let idx = {
            let mut c = self.counts.borrow_mut();
            c.seeks += 1;
            c.seeks - 1
        };
        self.fault(Kind::Seek, idx)?;
        self.inner.seek(from)
    }
}
