//! The C09 battery: open a byte sequence as a package and, if it opens,
//! exercise every read operation and then every mutating operation followed
//! by a flush.  Every call must return (`Ok` and `Err` are both fine): panics
//! are caught and reported with their source location, runaway I/O is caught
//! by a deterministic call budget on the medium, and length-driven giant
//! allocations by the counting allocator of the binary.

use crate::engine::{catch, Fail};
use crate::media::{Instrumented, SharedBuf};
use msi::{CodePage, Column, ColumnType, Delete, Expr, Insert, Language, Package, Select, Update, Value};
use std::cell::Cell;
use std::io::{Read, Write};

thread_local! {
    /// largest single allocation request seen while tracking is on
    pub static MAX_ALLOC: Cell<usize> = const { Cell::new(0) };
    pub static TRACKING: Cell<bool> = const { Cell::new(false) };
}

/// Called by the binary's global allocator for every allocation request.
#[inline]
pub fn note_alloc(size: usize) {
    // `try_with`: thread-locals may be gone during thread teardown
    let _ = TRACKING.try_with(|t| {
        if t.get() {
            let _ = MAX_ALLOC.try_with(|m| {
                if size > m.get() {
                    m.set(size);
                }
            });
        }
    });
}

#[derive(Clone, Debug, Default)]
pub struct Outcome {
    /// how far the battery got: "open-error", "opened", "read", "mutated", "flushed"
    pub stage: &'static str,
    pub tables: usize,
    pub io_calls: u64,
    pub max_alloc: usize,
}

const P: &str = "C09";

fn schema_value(col: &Column, salt: i32) -> Value {
    if let Some(vals) = col.enum_values() {
        return Value::Str(vals[(salt.unsigned_abs() as usize) % vals.len()].clone());
    }
    match col.coltype() {
        ColumnType::Int16 | ColumnType::Int32 => {
            let base = if col.coltype() == ColumnType::Int16 { (salt % 1000) + 1 } else { salt.wrapping_add(100_000) };
            match col.value_range() {
                Some((lo, hi)) if lo <= hi => Value::Int(base.clamp(lo, hi)),
                _ => Value::Int(base),
            }
        }
        ColumnType::Str(w) => {
            let s = match col.category() {
                Some(msi::Category::Guid) => "{34AB5C53-9B30-4E14-AEF0-2C1C7BA826C0}".to_string(),
                Some(msi::Category::Version) => "1.2".to_string(),
                Some(msi::Category::Language) => "1033".to_string(),
                Some(msi::Category::Integer) | Some(msi::Category::DoubleInteger) => "7".to_string(),
                Some(msi::Category::UpperCase) => format!("V{}", salt % 97),
                Some(msi::Category::LowerCase) => format!("v{}", salt % 97),
                Some(msi::Category::Cabinet) => "a.cab".to_string(),
                _ => format!("Id{}", salt % 9973),
            };
            Value::Str(if w > 0 { s.chars().take(w).collect() } else { s })
        }
    }
}

/// Runs the battery.  `strict_alloc`: judge the largest single allocation.
pub fn run_battery(bytes: &[u8], strict_alloc: bool) -> Result<Outcome, Fail> {
    // The budget is a deterministic stand-in for "does not end": an endless
    // loop passes any bound within a second or two (an in-memory call costs
    // ~30 ns), while the whole battery on the most call-hungry 30 KiB files
    // libFuzzer has found so far stays below one million calls.
    let sectors = (bytes.len() / 512 + 1) as u64;
    let budget = std::env::var("VERIF_IO_BUDGET").ok().and_then(|v| v.parse::<u64>().ok()).unwrap_or(20_000_000 + 40_000 * sectors);
    let shared = SharedBuf::new(bytes.to_vec());
    let medium = Instrumented::new(shared.clone()).with_budget(budget);
    let counts = medium.counts.clone();
    let exceeded = medium.budget_exceeded.clone();
    let mut out = Outcome { stage: "open-error", ..Outcome::default() };
    MAX_ALLOC.with(|m| m.set(0));
    TRACKING.with(|t| t.set(true));
    let phase = Cell::new("open");
    let result = catch(|| {
        let mut pkg = match Package::open(medium) {
            Ok(p) => p,
            Err(_) => return,
        };
        out.stage = "opened";
        // ---------------- read operations ----------------
        phase.set("read");
        let _ = pkg.package_type();
        let _ = pkg.database_codepage();
        let names: Vec<String> = pkg.tables().map(|t| t.name().to_string()).collect();
        out.tables = names.len();
        let mut sizes: Vec<(String, usize)> = Vec::new();
        for n in &names {
            let _ = pkg.has_table(n);
            if let Some(t) = pkg.get_table(n) {
                let _ = t.primary_key_indices();
                for c in t.columns() {
                    let _ = (c.name(), c.coltype(), c.is_nullable(), c.is_primary_key(), c.is_localizable(), c.value_range(), c.category(), c.enum_values());
                    let _ = t.has_column(c.name());
                    let _ = t.get_column(c.name());
                    let _ = c.is_valid_value(&Value::Null);
                }
            }
            if let Ok(rows) = pkg.select_rows(Select::table(n.as_str())) {
                let cols: Vec<String> = rows.columns().iter().map(|c| c.name().to_string()).collect();
                let mut count = 0usize;
                let _ = rows.len();
                for r in rows {
                    count += 1;
                    for i in 0..r.len() {
                        let _ = r[i].to_string();
                    }
                    if count <= 50 {
                        for c in &cols {
                            if r.has_column(c) {
                                let _ = &r[c.as_str()];
                            }
                        }
                    }
                }
                sizes.push((n.clone(), count));
            }
            // a filtered, projected select
            if let Some(first) = pkg.get_table(n).and_then(|t| t.columns().first().map(|c| c.name().to_string())) {
                if let Ok(rows) = pkg.select_rows(Select::table(n.as_str()).columns(&[first.as_str()]).with(Expr::col(first.as_str()).ne(Expr::null()))) {
                    let _ = rows.count();
                }
            }
        }
        // joins of the first tables that are small enough for the nested loop
        let small: Vec<&(String, usize)> = sizes.iter().filter(|s| s.1 <= 300).take(3).collect();
        for a in &small {
            for b in &small {
                let on = || Expr::boolean(true);
                if let Ok(rows) = pkg.select_rows(Select::table(a.0.as_str()).inner_join(Select::table(b.0.as_str()), on())) {
                    let _ = rows.take(2000).count();
                }
                if let Ok(rows) = pkg.select_rows(Select::table(a.0.as_str()).left_join(Select::table(b.0.as_str()), Expr::boolean(false))) {
                    let _ = rows.take(2000).count();
                }
            }
        }
        {
            let s = pkg.summary_info();
            let _ = (s.arch().map(|x| x.len()), s.author().map(|x| x.len()), s.codepage(), s.comments().map(|x| x.len()), s.creating_application().map(|x| x.len()), s.creation_time(), s.languages().iter().map(|l| l.tag().len()).sum::<usize>(), s.subject().map(|x| x.len()), s.title().map(|x| x.len()), s.uuid(), s.word_count());
        }
        let _ = pkg.has_digital_signature();
        let stream_names: Vec<String> = pkg.streams().collect();
        for n in &stream_names {
            let _ = pkg.has_stream(n);
            if let Ok(mut r) = pkg.read_stream(n) {
                let mut b = Vec::new();
                let _ = r.read_to_end(&mut b);
            }
        }
        out.stage = "read";
        // ---------------- mutating operations ----------------
        phase.set("mutate");
        for (i, n) in names.iter().enumerate() {
            let cols: Vec<Column> = match pkg.get_table(n) {
                Some(t) => t.columns().to_vec(),
                None => continue,
            };
            let row: Vec<Value> = cols.iter().enumerate().map(|(j, c)| schema_value(c, 7000 + (i * 31 + j) as i32)).collect();
            let _ = pkg.insert_rows(Insert::into(n.as_str()).row(row));
            if let Some(c) = cols.iter().find(|c| !c.is_primary_key()) {
                let _ = pkg.update_rows(Update::table(n.as_str()).set(c.name(), schema_value(c, 12)));
                let _ = pkg.update_rows(Update::table(n.as_str()).set(c.name(), Value::Null).with(Expr::col(cols[0].name()).eq(Expr::integer(1))));
            }
            if let Some(c) = cols.iter().find(|c| c.is_primary_key()) {
                let _ = pkg.update_rows(Update::table(n.as_str()).set(c.name(), schema_value(c, 99)).with(Expr::col(c.name()).eq(Expr::null())));
            }
            let _ = pkg.delete_rows(Delete::from(n.as_str()).with(Expr::col(cols[0].name()).eq(Expr::integer(7000))));
            if i % 2 == 1 {
                let _ = pkg.delete_rows(Delete::from(n.as_str()));
            }
        }
        let _ = pkg.create_table("VerifNew", vec![Column::build("k").primary_key().int16(), Column::build("v").nullable().string(16)]);
        let _ = pkg.insert_rows(Insert::into("VerifNew").row(vec![Value::Int(1), Value::from("fresh string")]));
        let _ = pkg.drop_table("VerifNew");
        if let Some(n) = names.iter().find(|n| !n.starts_with('_')) {
            let _ = pkg.drop_table(n);
        }
        if let Ok(mut w) = pkg.write_stream("Verif.bin") {
            let _ = w.write_all(&[7u8; 5000]);
            let _ = w.flush();
        }
        if let Some(n) = stream_names.first() {
            if let Ok(mut w) = pkg.write_stream(n) {
                let _ = w.write_all(b"overwritten");
                let _ = w.flush();
            }
            let _ = pkg.remove_stream(n);
        }
        let _ = pkg.remove_stream("Verif.bin");
        let _ = pkg.remove_digital_signature();
        {
            let s = pkg.summary_info_mut();
            s.set_title("t");
            s.set_author("é");
            s.set_arch("x64");
            s.set_languages(&[Language::from_code(1033)]);
            s.set_word_count(2);
            s.clear_comments();
            s.set_codepage(CodePage::Windows1252);
        }
        pkg.set_database_codepage(CodePage::Windows1252);
        out.stage = "mutated";
        phase.set("flush");
        if pkg.flush().is_ok() {
            out.stage = "flushed";
        }
        phase.set("close");
        drop(pkg);
    });
    TRACKING.with(|t| t.set(false));
    out.max_alloc = MAX_ALLOC.with(|m| m.get());
    out.io_calls = {
        let c = counts.borrow();
        c.reads + c.writes + c.seeks
    };
    if let Err((loc, msg)) = result {
        if crate::engine::is_harness_panic(&loc) {
            eprintln!("HARNESS BUG: panic at {loc}: {msg}");
            std::process::exit(2);
        }
        return Err(Fail::new(format!("{P} panic at={loc}"), format!("panic in phase {}: {msg} ({loc})", phase.get())));
    }
    if *exceeded.borrow() {
        return Err(Fail::new(format!("{P} unbounded-io phase={}", phase.get()), format!("more than {budget} read/write/seek calls on a file of {} bytes", bytes.len())));
    }
    let limit = (64usize << 20) + 16 * bytes.len();
    if strict_alloc && out.max_alloc > limit {
        return Err(Fail::new(
            format!("{P} huge-allocation phase={}", if out.stage == "open-error" { "open" } else { "after-open" }),
            format!("a single allocation of {} bytes was requested for a file of {} bytes (a length field drives the allocation)", out.max_alloc, bytes.len()),
        ));
    }
    Ok(out)
}

/// Entry point of the libFuzzer targets: runs the battery on one file and
/// aborts (libFuzzer then keeps the input as an artifact) unless the verdict
/// is clean or carries the exact signature of an open known finding.  Without
/// the allowlist a campaign rediscovers the one known dependency panic over
/// and over and each job stops at it.  The first call replaces libfuzzer-sys's
/// abort-on-panic hook by the harness's recording hook so that the battery's
/// `catch_unwind` sees the panic and can name its location.
pub fn fuzz_judge(bytes: &[u8]) {
    static KNOWN: std::sync::OnceLock<Vec<String>> = std::sync::OnceLock::new();
    let known = KNOWN.get_or_init(|| {
        crate::engine::install_panic_hook();
        let dir = std::env::var("VERIF_DIR").unwrap_or_else(|_| "/verif".into());
        let f = crate::findings::Findings::load(&dir);
        f.open.iter().flat_map(|o| std::iter::once(o.signature.clone()).chain(o.also.iter().cloned())).collect()
    });
    if let Err(f) = run_battery(bytes, false) {
        if known.iter().any(|k| *k == f.sig) {
            return;
        }
        eprintln!("{}: {}", f.sig, f.detail);
        std::process::abort();
    }
}
