use serde_json::{json, Value as J};
use std::time::Instant;
use verifcore::engine::{self, Ctx, Tier};
use verifcore::findings::Findings;
use verifcore::props;

/// Counting allocator: records the largest single request while the C09
/// battery is tracking (deterministic stand-in for "allocation failure on a
/// machine with less address space").
struct Tracking;

unsafe impl std::alloc::GlobalAlloc for Tracking {
    unsafe fn alloc(&self, layout: std::alloc::Layout) -> *mut u8 {
        verifcore::battery::note_alloc(layout.size());
        std::alloc::System.alloc(layout)
    }
    unsafe fn dealloc(&self, ptr: *mut u8, layout: std::alloc::Layout) {
        std::alloc::System.dealloc(ptr, layout)
    }
    unsafe fn alloc_zeroed(&self, layout: std::alloc::Layout) -> *mut u8 {
        verifcore::battery::note_alloc(layout.size());
        std::alloc::System.alloc_zeroed(layout)
    }
    unsafe fn realloc(&self, ptr: *mut u8, layout: std::alloc::Layout, new_size: usize) -> *mut u8 {
        verifcore::battery::note_alloc(new_size);
        std::alloc::System.realloc(ptr, layout, new_size)
    }
}

#[global_allocator]
static GLOBAL: Tracking = Tracking;

fn usage() -> ! {
    eprintln!("usage: msiverif check <ID> [--tier quick|thorough] [--seed N] [--replay FILE] [--verif-dir DIR]");
    std::process::exit(2);
}

fn main() {
    let args: Vec<String> = std::env::args().collect();
    if args.len() == 3 && args[1] == "dump" && args[2] == "C09" {
        for (name, note, case) in props::c09::canned() {
            let doc = json!({"property": "C09", "kind": "structured", "case": case, "note": note});
            let path = format!("{}/regress/C09-{}.json", std::env::var("VERIF_DIR").unwrap_or_else(|_| "/verif".into()), name);
            std::fs::write(&path, doc.to_string()).unwrap();
            println!("wrote {path}");
        }
        return;
    }
    if args.len() == 5 && args[1] == "c09-gen" {
        props::c09::dump_raw_cases(args[2].parse().unwrap_or(1), args[3].parse().unwrap_or(100), &args[4]);
        return;
    }
    if args.len() < 3 || args[1] != "check" {
        usage();
    }
    let id = args[2].clone();
    let mut tier = match std::env::var("VERIF_TIER").ok().as_deref() {
        Some("thorough") => Tier::Thorough,
        _ => Tier::Quick,
    };
    let mut seed: u64 = std::env::var("VERIF_SEED")
        .ok()
        .and_then(|s| s.trim().parse::<i128>().ok())
        .map(|v| v as u64)
        .unwrap_or(20261003);
    let mut replay: Option<String> = None;
    let mut verif_dir = std::env::var("VERIF_DIR").unwrap_or_else(|_| "/verif".to_string());
    let mut i = 3;
    while i < args.len() {
        match args[i].as_str() {
            "--tier" => {
                i += 1;
                tier = match args.get(i).map(|s| s.as_str()) {
                    Some("quick") => Tier::Quick,
                    Some("thorough") => Tier::Thorough,
                    _ => usage(),
                };
            }
            "--seed" => {
                i += 1;
                seed = args.get(i).and_then(|s| s.parse::<i128>().ok()).map(|v| v as u64).unwrap_or_else(|| usage());
            }
            "--replay" => {
                i += 1;
                replay = Some(args.get(i).cloned().unwrap_or_else(|| usage()));
            }
            "--verif-dir" => {
                i += 1;
                verif_dir = args.get(i).cloned().unwrap_or_else(|| usage());
            }
            _ => usage(),
        }
        i += 1;
    }
    let prop = match props::all().into_iter().find(|p| p.id == id) {
        Some(p) => p,
        None => {
            eprintln!("unknown property {}", id);
            std::process::exit(2);
        }
    };
    engine::install_panic_hook();
    let findings = Findings::load(&verif_dir);
    let mut ctx = Ctx {
        property: id.clone(),
        tier,
        seed,
        findings,
        verif_dir: verif_dir.clone(),
        strict: false,
    };

    // --- replay of one saved case ---------------------------------------
    if let Some(path) = replay {
        ctx.strict = true;
        let text = std::fs::read_to_string(&path).unwrap_or_else(|e| {
            eprintln!("cannot read {}: {}", path, e);
            std::process::exit(2)
        });
        let doc: J = serde_json::from_str(&text).unwrap_or_else(|e| {
            eprintln!("cannot parse {}: {}", path, e);
            std::process::exit(2)
        });
        match run_replay(&ctx, &prop, &doc) {
            Ok(()) => {
                println!("replay {}: property {} holds on this case", path, id);
                std::process::exit(0);
            }
            Err(f) => {
                println!("replay {}: {} -- {}", path, f.sig, f.detail);
                println!("VIOLATION property={} replay={}", id, path);
                std::process::exit(1);
            }
        }
    }

    let started = Instant::now();
    let mut exit_code = 0;

    // --- regress: shrunk cases of every finding ever confirmed ----------
    let mut regress_run = 0u64;
    let mut regress_files: Vec<String> = Vec::new();
    if let Ok(rd) = std::fs::read_dir(format!("{}/regress", verif_dir)) {
        for e in rd.flatten() {
            let name = e.file_name().to_string_lossy().to_string();
            if name.starts_with(&format!("{}-", id)) && name.ends_with(".json") {
                regress_files.push(name);
            }
        }
    }
    regress_files.sort();
    let mut strict_ctx = Ctx {
        property: id.clone(),
        tier,
        seed,
        findings: ctx.findings.clone(),
        verif_dir: verif_dir.clone(),
        strict: true,
    };
    strict_ctx.strict = true;
    for name in &regress_files {
        let path = format!("{}/regress/{}", verif_dir, name);
        let doc: J = match std::fs::read_to_string(&path).ok().and_then(|t| serde_json::from_str(&t).ok()) {
            Some(d) => d,
            None => {
                eprintln!("cannot read regress case {}", path);
                std::process::exit(2);
            }
        };
        regress_run += 1;
        if let Err(f) = run_replay(&strict_ctx, &prop, &doc) {
            // An open known finding's regress case is expected to fail.
            if ctx.findings.is_open(&id, &f.sig) {
                continue;
            }
            println!("regress case {} fails: {} -- {}", name, f.sig, f.detail);
            println!("VIOLATION property={} replay={}", id, path);
            exit_code = 1;
        }
    }

    // --- search -----------------------------------------------------------
    // watchdog for every check: a run that does not end is inconclusive
    // (exit 2), never a violation and never an endless wait
    {
        let limit: u64 = if tier.name() == "thorough" { 4 * 3600 } else { 1800 };
        let wid = id.clone();
        std::thread::spawn(move || {
            std::thread::sleep(std::time::Duration::from_secs(limit));
            eprintln!("{wid} watchdog: the run exceeded {limit} s; inconclusive");
            std::process::exit(2);
        });
    }
    // a library call made outside any generated case (while a check prepares
    // its inputs) may panic too: that is a violation of the same kind as a
    // panic inside a case, not a reason to die with exit 101
    let mut report = match engine::catch(|| (prop.run)(&ctx)) {
        Ok(r) => r,
        Err((loc, msg)) => {
            if engine::is_harness_panic(&loc) {
                eprintln!("HARNESS BUG: panic at {loc} while running {id}: {msg}");
                std::process::exit(2);
            }
            let mut r = engine::Report::new("exploration", "the search did not complete: a library call made while the check prepared its cases panicked");
            r.violations.push(engine::Violation {
                sig: format!("{id} panic at={loc}"),
                detail: format!("a library call outside any generated case panicked: {msg} ({loc})"),
                case: json!({"kind": "setup", "case": J::Null}),
            });
            r
        }
    };
    report.extra.insert("regress_cases_replayed".into(), json!(regress_run));
    let _ = std::fs::create_dir_all(format!("{}/replays", verif_dir));
    for (n, v) in report.violations.iter().enumerate() {
        let path = format!("{}/replays/{}-{}-{}.json", verif_dir, id, seed, n);
        let doc = json!({
            "property": id,
            "signature": v.sig,
            "detail": v.detail,
            "seed": seed,
            "tier": tier.name(),
            "kind": v.case.get("kind").cloned().unwrap_or(J::Null),
            "case": v.case.get("case").cloned().unwrap_or(J::Null),
        });
        std::fs::write(&path, serde_json::to_string_pretty(&doc).unwrap() + "\n").unwrap();
        println!("violation: {} -- {}", v.sig, v.detail);
        println!("VIOLATION property={} replay={}", id, path);
        exit_code = 1;
    }

    // --- known findings: probe each open entry ------------------------------
    for f in ctx.findings.open_for(&id) {
        if f.probe.is_null() {
            println!("KNOWN-FINDING: property={} {}", id, f.what);
            report.known_lines.push(f.what.clone());
            continue;
        }
        match run_replay(&strict_ctx, &prop, &f.probe) {
            Err(got) if got.sig == f.signature || f.also.iter().any(|s| *s == got.sig) => {
                println!("KNOWN-FINDING: property={} {}", id, f.what);
                report.known_lines.push(f.what.clone());
            }
            Err(got) => {
                // The probe fails in a different way: that is a new violation.
                let path = format!("{}/replays/{}-{}-probe.json", verif_dir, id, seed);
                let mut doc = f.probe.clone();
                doc["signature"] = json!(got.sig);
                doc["detail"] = json!(got.detail);
                std::fs::write(&path, serde_json::to_string_pretty(&doc).unwrap() + "\n").unwrap();
                println!("violation: {} -- {}", got.sig, got.detail);
                println!("VIOLATION property={} replay={}", id, path);
                exit_code = 1;
            }
            Ok(()) => {
                println!("note: open finding no longer reproduces: {}", f.signature);
            }
        }
    }

    engine::write_evidence(&ctx, &report, started);
    println!(
        "{} {} seed={} evaluations={} distinct_nontrivial={} excluded_known={} violations={} wall={:.1}s",
        id,
        tier.name(),
        seed,
        report.stats.evaluations,
        report.stats.nontrivial.len(),
        report.stats.excluded_known,
        report.violations.len(),
        started.elapsed().as_secs_f64()
    );
    std::process::exit(exit_code);
}

fn run_replay(ctx: &Ctx, prop: &props::Property, doc: &J) -> engine::Check {
    let inner = json!({"kind": doc.get("kind").cloned().unwrap_or(J::Null), "case": doc.get("case").cloned().unwrap_or(J::Null)});
    match engine::no_panic(&ctx.property, "replay", || (prop.replay)(ctx, &inner)) {
        Ok(r) => r,
        Err(f) => Err(f),
    }
}
