//! Code-page oracle: each supported Windows code page wired to the
//! `encoding_rs` encoding obtained by WHATWG label from the page's documented
//! name — independent of `msi::CodePage`'s own wiring (shared tables,
//! independent assignment).

use encoding_rs::{EncoderResult, Encoding};
use msi::CodePage;

#[derive(Clone, Copy)]
pub struct Page {
    pub cp: CodePage,
    pub id: i32,
    /// WHATWG label; None = US-ASCII (defined directly).
    pub label: Option<&'static str>,
}

pub const PAGES: &[Page] = &[
    Page { cp: CodePage::Windows932, id: 932, label: Some("shift_jis") },
    Page { cp: CodePage::Windows936, id: 936, label: Some("gbk") },
    Page { cp: CodePage::Windows949, id: 949, label: Some("euc-kr") },
    Page { cp: CodePage::Windows950, id: 950, label: Some("big5") },
    Page { cp: CodePage::Windows951, id: 951, label: Some("big5") },
    Page { cp: CodePage::Windows1250, id: 1250, label: Some("windows-1250") },
    Page { cp: CodePage::Windows1251, id: 1251, label: Some("windows-1251") },
    Page { cp: CodePage::Windows1252, id: 1252, label: Some("windows-1252") },
    Page { cp: CodePage::Windows1253, id: 1253, label: Some("windows-1253") },
    Page { cp: CodePage::Windows1254, id: 1254, label: Some("windows-1254") },
    Page { cp: CodePage::Windows1255, id: 1255, label: Some("windows-1255") },
    Page { cp: CodePage::Windows1256, id: 1256, label: Some("windows-1256") },
    Page { cp: CodePage::Windows1257, id: 1257, label: Some("windows-1257") },
    Page { cp: CodePage::Windows1258, id: 1258, label: Some("windows-1258") },
    Page { cp: CodePage::MacintoshRoman, id: 10000, label: Some("macintosh") },
    Page { cp: CodePage::MacintoshCyrillic, id: 10007, label: Some("x-mac-cyrillic") },
    Page { cp: CodePage::UsAscii, id: 20127, label: None },
    Page { cp: CodePage::Iso88591, id: 28591, label: Some("iso-8859-1") },
    Page { cp: CodePage::Iso88592, id: 28592, label: Some("iso-8859-2") },
    Page { cp: CodePage::Iso88593, id: 28593, label: Some("iso-8859-3") },
    Page { cp: CodePage::Iso88594, id: 28594, label: Some("iso-8859-4") },
    Page { cp: CodePage::Iso88595, id: 28595, label: Some("iso-8859-5") },
    Page { cp: CodePage::Iso88596, id: 28596, label: Some("iso-8859-6") },
    Page { cp: CodePage::Iso88597, id: 28597, label: Some("iso-8859-7") },
    Page { cp: CodePage::Iso88598, id: 28598, label: Some("iso-8859-8") },
    Page { cp: CodePage::Utf8, id: 65001, label: Some("utf-8") },
];

pub fn page_by_id(id: i32) -> Option<&'static Page> {
    let id = if id == 0 { 65001 } else { id };
    PAGES.iter().find(|p| p.id == id)
}

pub fn page_of(cp: CodePage) -> &'static Page {
    PAGES.iter().find(|p| p.cp == cp).expect("all 26 pages are listed")
}

impl Page {
    pub fn encoding(&self) -> Option<&'static Encoding> {
        self.label.map(|l| Encoding::for_label(l.as_bytes()).expect("known label"))
    }

    /// Reference encoding of a string: unmappable characters become '?'.
    pub fn encode(&self, s: &str) -> Vec<u8> {
        match self.encoding() {
            None => s.chars().map(|c| if c.is_ascii() { c as u8 } else { b'?' }).collect(),
            Some(enc) => {
                let mut out = Vec::with_capacity(s.len() + 8);
                let mut encoder = enc.new_encoder();
                let mut rest = s;
                let mut buf = [0u8; 64];
                loop {
                    let (res, read, written) =
                        encoder.encode_from_utf8_without_replacement(rest, &mut buf, true);
                    out.extend_from_slice(&buf[..written]);
                    rest = &rest[read..];
                    match res {
                        EncoderResult::InputEmpty => break,
                        EncoderResult::OutputFull => {}
                        EncoderResult::Unmappable(_) => out.push(b'?'),
                    }
                }
                out
            }
        }
    }

    /// Reference decoding: no BOM handling, malformed sequences become U+FFFD.
    pub fn decode(&self, b: &[u8]) -> String {
        match self.encoding() {
            None => b.iter().map(|&x| if x.is_ascii() { x as char } else { '\u{FFFD}' }).collect(),
            Some(enc) => enc.decode_without_bom_handling(b).0.into_owned(),
        }
    }

    /// True when `c` survives encode + decode under the reference.
    pub fn representable(&self, c: char) -> bool {
        let mut tmp = [0u8; 4];
        let s: &str = c.encode_utf8(&mut tmp);
        let e = self.encode(s);
        self.decode(&e) == s
    }
}

/// A small repertoire of characters representable in the page (reference
/// round-trip), for generators of strings "drawn from the page's repertoire".
/// Deterministic; mixes ASCII with the page's own non-ASCII characters.
pub fn repertoire(page: &Page) -> Vec<char> {
    let mut out: Vec<char> = Vec::new();
    let candidates: &[char] = &[
        'a', 'Z', '0', ' ', '_', '.', ';', '\'', '"', '\\', '~', '|', '\u{7f}',
        'é', 'ß', 'ñ', 'ü', 'Ø', '¿', '€', '™', 'š', 'Ž', 'ő', 'ł', 'ț', 'ğ', 'İ',
        'Ж', 'я', 'ё', 'Ω', 'λ', 'ά', 'א', 'ש', 'ع', 'ي', 'ก', 'ไ', 'ễ', 'ơ',
        'あ', 'ア', '日', '本', '語', '한', '글', '中', '國', '简', '㈱', 'ｱ', '￥',
        '\u{a0}', '\u{ad}', '£', '¥', '©', '«', '°', 'µ', '÷', 'ƒ', '†', '•', '…',
        '\u{feff}', '\u{fffd}', '😀', '\u{10ffff}', '\u{1}', '\t', '\n',
    ];
    for &c in candidates {
        if page.representable(c) {
            out.push(c);
        }
    }
    out
}

/// Strings whose *encoded* form starts like a byte-order mark (FF FE, FE FF,
/// EF BB BF): a decoder that sniffs BOMs mangles exactly these.
pub fn bom_lookalikes(page: &Page) -> Vec<String> {
    let mut out = Vec::new();
    if page.id == 65001 {
        out.push("\u{feff}abc".to_string());
        out.push("\u{feff}".to_string());
        return out;
    }
    let one = |b: u8| -> Option<char> {
        let s = page.decode(&[b]);
        let mut cs = s.chars();
        match (cs.next(), cs.next()) {
            (Some(c), None) if c != '\u{fffd}' && page.encode(&s) == vec![b] => Some(c),
            _ => None,
        }
    };
    if let (Some(ff), Some(fe)) = (one(0xff), one(0xfe)) {
        out.push(format!("{ff}{fe}ab"));
        out.push(format!("{fe}{ff}abcd"));
    }
    if let (Some(ef), Some(bb), Some(bf)) = (one(0xef), one(0xbb), one(0xbf)) {
        out.push(format!("{ef}{bb}{bf}xyz"));
    }
    out
}
