pub mod cpref;
pub mod engine;
pub mod findings;
pub mod props;
