pub mod cpref;
pub mod engine;
pub mod findings;
pub mod model;
pub mod pestq;
pub mod props;
pub mod refeval;
