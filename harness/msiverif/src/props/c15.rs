//! C15 — a successful flush means the data reached the medium, even when
//! writes fail.  Fault-plan enumeration over a fault-injecting medium.

use crate::engine::{catch, par_enumerate, Check, Ctx, Fail, Report, Stats};
use crate::media::{Counts, Instrumented, Kind, Plan, SharedBuf};
use crate::observe::{observe, Snapshot};
use crate::props::c01::W_PERSIST;
use crate::seq::{self, OpSeed, Outcome, Run, SeqCase, PLAIN};
use msi::{Column, Delete, Expr, Insert, Package, PackageType, Update, Value};
use proptest::prelude::*;
use proptest::strategy::ValueTree;
use serde::{Deserialize, Serialize};
use serde_json::{json, Value as J};
use std::io::Write;

const P: &str = "C15";

type Pkg = Package<Instrumented>;

#[derive(Clone, Debug, Serialize, Deserialize, Hash, PartialEq, Eq)]
pub struct FaultCase {
    /// "a" fresh package script, "b" script on a prepared large package
    pub script: String,
    pub plan: Plan,
}

/// One step of a script.  `Some(j)`: a flush point (its index).
struct Step {
    name: &'static str,
    point: Option<usize>,
    run: Box<dyn Fn(&mut Pkg) -> std::io::Result<()>>,
}

fn step(name: &'static str, f: impl Fn(&mut Pkg) -> std::io::Result<()> + 'static) -> Step {
    Step { name, point: None, run: Box::new(f) }
}
fn flush_point(j: usize) -> Step {
    Step { name: "flush", point: Some(j), run: Box::new(|p: &mut Pkg| p.flush()) }
}

fn script_a() -> Vec<Step> {
    vec![
        step("create_table(Data)", |p| p.create_table("Data", vec![Column::build("k").primary_key().int32(), Column::build("name").string(0), Column::build("note").nullable().string(64)])),
        step("insert 40 rows", |p| {
            p.insert_rows(Insert::into("Data").rows((0..40).map(|i| vec![Value::Int(i), Value::Str(format!("name-{i:03}")), if i % 3 == 0 { Value::Null } else { Value::Str(format!("a note about row {i}")) }]).collect()))
        }),
        step("write_stream(20000 bytes)", |p| {
            let mut w = p.write_stream("Binary.big")?;
            w.write_all(&(0..20000u32).map(|i| (i % 251) as u8).collect::<Vec<u8>>())?;
            w.flush()
        }),
        step("summary", |p| {
            p.summary_info_mut().set_author("Jane Doe");
            p.summary_info_mut().set_subject("fault injection");
            Ok(())
        }),
        flush_point(0),
        step("insert 10 more", |p| p.insert_rows(Insert::into("Data").rows((100..110).map(|i| vec![Value::Int(i), Value::Str(format!("late-{i}")), Value::Null]).collect()))),
        step("update", |p| p.update_rows(Update::table("Data").set("note", Value::from("updated")).with(Expr::col("k").lt(Expr::integer(5))))),
        step("delete", |p| p.delete_rows(Delete::from("Data").with(Expr::col("k").eq(Expr::integer(7))))),
        step("create_table(Second)", |p| p.create_table("Second", vec![Column::build("id").primary_key().id_string(16), Column::build("n").nullable().int16()])),
        step("insert into Second", |p| p.insert_rows(Insert::into("Second").row(vec![Value::from("alpha"), Value::Int(1)]).row(vec![Value::from("beta"), Value::Null]))),
        flush_point(1),
        step("small stream", |p| {
            let mut w = p.write_stream("Icon.small")?;
            w.write_all(b"0123456789")?;
            w.flush()
        }),
        step("drop_table(Second)", |p| p.drop_table("Second")),
        step("summary 2", |p| {
            p.summary_info_mut().set_comments("after the second flush");
            Ok(())
        }),
    ]
}

fn script_b() -> Vec<Step> {
    vec![
        step("insert 5 rows", |p| p.insert_rows(Insert::into("Big").rows((5000..5005).map(|i| vec![Value::Int(i), Value::Str(format!("fresh string {i}"))]).collect()))),
        step("update one", |p| p.update_rows(Update::table("Big").set("s", Value::from("changed")).with(Expr::col("k").eq(Expr::integer(10))))),
        flush_point(0),
        step("delete some", |p| p.delete_rows(Delete::from("Big").with(Expr::col("k").lt(Expr::integer(20))))),
        step("summary", |p| {
            p.summary_info_mut().set_title("prepared");
            Ok(())
        }),
    ]
}

/// Script (c): tables whose serialized size is an exact multiple of 4 KiB and
/// of 8 KiB (the container's buffer), and one byte pair more: the last block
/// a writer hands over may be full, empty or tiny.
fn script_c() -> Vec<Step> {
    vec![
        step("create_table(Grid)", |p| p.create_table("Grid", vec![Column::build("k").primary_key().int16(), Column::build("v").int16()])),
        step("create_table(Wide8)", |p| p.create_table("Wide8", vec![Column::build("k").primary_key().int16(), Column::build("a").int16(), Column::build("b").int32()])),
        flush_point(0),
        step("insert 1024 rows (4096 bytes)", |p| p.insert_rows(Insert::into("Grid").rows((0..1024).map(|i| vec![Value::Int(i - 500), Value::Int(i % 97)]).collect()))),
        flush_point(1),
        step("insert 512 rows of 8 bytes (4096 bytes)", |p| p.insert_rows(Insert::into("Wide8").rows((0..512).map(|i| vec![Value::Int(i), Value::Int(-i), Value::Int(i * 65_537)]).collect()))),
        step("insert 1024 more rows (8192 bytes)", |p| p.insert_rows(Insert::into("Grid").rows((1024..2048).map(|i| vec![Value::Int(i - 500), Value::Int(i % 89)]).collect()))),
        flush_point(2),
        step("insert one more row (8196 bytes)", |p| p.insert_rows(Insert::into("Grid").row(vec![Value::Int(3000), Value::Int(1)]))),
        step("delete back to 4096 bytes", |p| p.delete_rows(Delete::from("Grid").with(Expr::col("k").ge(Expr::integer(524))))),
    ]
}

/// The prepared package of script (b): a pool of more than 3,000 strings and
/// table streams beyond the container's 8 KiB stream buffer.
pub fn prepared_bytes() -> Vec<u8> {
    let mut pkg = Package::create(PackageType::Installer, SharedBuf::new(Vec::new())).expect("create");
    pkg.create_table("Big", vec![Column::build("k").primary_key().int32(), Column::build("s").string(0)]).expect("create_table");
    pkg.insert_rows(Insert::into("Big").rows((0..3200).map(|i| vec![Value::Int(i), Value::Str(format!("string number {i:05}"))]).collect())).expect("insert");
    pkg.into_inner().expect("into_inner").bytes()
}

pub struct Script {
    pub id: &'static str,
    pub initial: Option<Vec<u8>>,
    steps: Vec<Step>,
}

pub fn script(id: &str, prepared: &[u8]) -> Script {
    match id {
        "a" => Script { id: "a", initial: None, steps: script_a() },
        "c" => Script { id: "c", initial: None, steps: script_c() },
        _ => Script { id: "b", initial: Some(prepared.to_vec()), steps: script_b() },
    }
}

fn reopen(bytes: Vec<u8>) -> Result<Snapshot, String> {
    let mut pkg = Package::open(SharedBuf::new(bytes)).map_err(|e| format!("does not open: {e}"))?;
    observe(&mut pkg)
}

pub struct RunResult {
    pub counts: Counts,
    /// per flush point (and the final into_inner): the reopened snapshot, if
    /// the call returned Ok while every earlier call had returned Ok
    pub points: Vec<Option<Result<Snapshot, String>>>,
    pub first_err: Option<String>,
    pub hit: bool,
}

/// Runs a script under a plan.  A panic is an `Err(Fail)`.
pub fn run_script(s: &Script, plan: Option<Plan>) -> Result<RunResult, Fail> {
    let shared = SharedBuf::new(s.initial.clone().unwrap_or_default());
    let medium = Instrumented::new(shared.clone()).with_plan(plan);
    let counts = medium.counts.clone();
    let hits = medium.fault_hits.clone();
    let npoints = s.steps.iter().filter(|x| x.point.is_some()).count() + 1;
    let mut points: Vec<Option<Result<Snapshot, String>>> = vec![None; npoints];
    let mut first_err: Option<String> = None;
    let panicked = |what: &str, loc: String, msg: String| Fail::new(format!("{P} panic at={loc}"), format!("script {} under {plan:?}: {what} panicked: {msg}", s.id));
    let opened = catch(|| if s.initial.is_some() { Package::open(medium) } else { Package::create(PackageType::Installer, medium) }).map_err(|(l, m)| panicked("open/create", l, m))?;
    let mut pkg = match opened {
        Ok(p) => p,
        Err(e) => {
            return Ok(RunResult { counts: counts.borrow().clone(), points, first_err: Some(format!("open/create: {e}")), hit: *hits.borrow() > 0 });
        }
    };
    for st in &s.steps {
        let r = match catch(|| (st.run)(&mut pkg)) {
            Ok(r) => r,
            Err((l, m)) => {
                // as in the generated scripts: a package that panicked is not
                // touched again, not even by its destructor
                std::mem::forget(pkg);
                return Err(panicked(st.name, l, m));
            }
        };
        match r {
            Ok(()) => {
                if let Some(j) = st.point {
                    if first_err.is_none() {
                        // the bytes durably on the medium at the instant flush returned Ok
                        points[j] = Some(reopen(shared.durable_bytes()));
                    }
                }
            }
            Err(e) => {
                if first_err.is_none() {
                    first_err = Some(format!("{}: {e}", st.name));
                }
            }
        }
    }
    let last = npoints - 1;
    let r = catch(move || pkg.into_inner().map(|_| ())).map_err(|(l, m)| panicked("into_inner", l, m))?;
    match r {
        Ok(()) => {
            if first_err.is_none() {
                points[last] = Some(reopen(shared.bytes()));
            }
        }
        Err(e) => {
            if first_err.is_none() {
                first_err = Some(format!("into_inner: {e}"));
            }
        }
    }
    let c = counts.borrow().clone();
    let hit = *hits.borrow() > 0;
    Ok(RunResult { counts: c, points, first_err, hit })
}

pub fn check_plan(s: &Script, reference: &[Snapshot], plan: Plan) -> Result<bool, Fail> {
    let r = run_script(s, Some(plan))?;
    for (j, p) in r.points.iter().enumerate() {
        if let Some(res) = p {
            let call = if j + 1 == r.points.len() { "into_inner".to_string() } else { format!("flush#{j}") };
            match res {
                Err(e) => {
                    return Err(Fail::new(
                        format!("{P} silent-loss script={} kind={:?} call={call}", s.id, plan.kind),
                        format!("under {plan:?} every call including {call} returned Ok, but the bytes on the medium are unreadable: {e}"),
                    ))
                }
                Ok(snap) => {
                    if let Some((part, d)) = reference[j].canon().diff(&snap.canon()) {
                        return Err(Fail::new(
                            format!("{P} silent-loss script={} kind={:?} call={call}", s.id, plan.kind),
                            format!("under {plan:?} every call including {call} returned Ok, but reopening the medium shows a different {part}: {}", crate::engine::clip(&d, 300)),
                        ));
                    }
                }
            }
        }
    }
    Ok(r.hit)
}

fn reference(s: &Script) -> Result<(Counts, Vec<Snapshot>), Fail> {
    let r = run_script(s, None)?;
    if let Some(e) = r.first_err {
        return Err(Fail::new(format!("{P} reference-run-failed"), format!("script {} fails without any fault: {e}", s.id)));
    }
    let mut snaps = Vec::new();
    for p in r.points {
        match p {
            Some(Ok(s)) => snaps.push(s),
            other => return Err(Fail::new(format!("{P} reference-run-failed"), format!("fault-free run has no readable snapshot at a flush point: {other:?}"))),
        }
    }
    Ok((r.counts, snaps))
}

pub fn check_fault(case: &FaultCase, prepared: &[u8]) -> Check {
    let s = script(&case.script, prepared);
    let (_, reference) = reference(&s)?;
    check_plan(&s, &reference, case.plan).map(|_| ())
}

// ------------------------------------------------------------------------- //
// Generated scripts (thorough): a sequence from the persist profile under a
// fault plan, judged differentially against its own fault-free run.

#[derive(Clone, Debug, Serialize, Deserialize, Hash, PartialEq, Eq)]
pub struct GenFault {
    pub seq: SeqCase,
    pub plan: Plan,
    /// When present, the fault index is this fraction (in 1/65536ths) of the
    /// number of calls of that kind the fault-free run of `seq` issues, so
    /// that the fault always lands inside the run; `plan.k` is then ignored.
    #[serde(default)]
    pub frac: Option<u16>,
}

fn run_generated(seq: &SeqCase, plan: Option<Plan>) -> Result<(Vec<Option<Result<Snapshot, String>>>, bool, Counts), Fail> {
    // The E-seq interpreter works on a plain shared buffer; for fault
    // injection the same late-bound ops are applied through a package over
    // an instrumented medium, mirrored by a fault-free shadow run that
    // resolves the seeds (values, names) identically.
    let mut shadow = Run::create(P, seq.ptype, &PLAIN)?;
    let shared = SharedBuf::new(Vec::new());
    let medium = Instrumented::new(shared.clone()).with_plan(plan);
    let counts = medium.counts.clone();
    let hits = medium.fault_hits.clone();
    let mut points: Vec<Option<Result<Snapshot, String>>> = Vec::new();
    let mut premise = true;
    let mut pkg: Option<Pkg> = match catch(|| Package::create(crate::observe::ptype_of(seq.ptype), medium)).map_err(|(l, m)| Fail::new(format!("{P} panic at={l}"), format!("create panicked under {plan:?}: {m}")))? {
        Ok(p) => Some(p),
        Err(_) => {
            premise = false;
            None
        }
    };
    for op in seq.ops.iter().filter(|o| !matches!(o, OpSeed::Reopen(_) | OpSeed::Select { .. })) {
        // resolve the op on the shadow (fault-free) run; replay its trace entry on the faulty package
        let before = shadow.trace.len();
        let out = match shadow.apply(P, op) {
            Ok(o) => o,
            Err(_) => break,
        };
        if matches!(out, Outcome::Skipped) || shadow.trace.len() == before {
            continue;
        }
        let Some(p) = pkg.as_mut() else { break };
        let is_flush = matches!(op, OpSeed::Flush);
        let r = match catch(|| mirror(p, &shadow, op)) {
            Ok(r) => r,
            Err((l, m)) => {
                // the panic is the verdict; the package (whose container may
                // now hold a poisoned lock) is not touched again, not even
                // by its destructor
                if let Some(broken) = pkg.take() {
                    std::mem::forget(broken);
                }
                return Err(Fail::new(format!("{P} panic at={l}"), format!("{} panicked under {plan:?}: {m}", op.kind())));
            }
        };
        match r {
            Ok(()) => {
                if is_flush {
                    points.push(if premise { Some(reopen(shared.bytes())) } else { None });
                }
            }
            Err(_) => {
                premise = false;
                if is_flush {
                    points.push(None);
                }
            }
        }
    }
    if let Some(p) = pkg.take() {
        let r = catch(move || p.into_inner().map(|_| ())).map_err(|(l, m)| Fail::new(format!("{P} panic at={l}"), format!("into_inner panicked under {plan:?}: {m}")))?;
        points.push(if r.is_ok() && premise { Some(reopen(shared.bytes())) } else { None });
    } else {
        points.push(None);
    }
    let c = counts.borrow().clone();
    let hit = *hits.borrow() > 0;
    Ok((points, hit, c))
}

/// Applies to `p` what `op` did to the shadow run (the shadow's model holds
/// the resolved effect; the API calls are re-issued from the model delta).
fn mirror(p: &mut Pkg, shadow: &Run, op: &OpSeed) -> std::io::Result<()> {
    // Re-deriving calls from a model delta is only needed for a few op kinds;
    // the generated scripts of C15 use exactly these.
    match op {
        OpSeed::Flush => p.flush(),
        OpSeed::CreateTable { .. } => {
            // the table that the shadow has and the package lacks
            for (name, t) in &shadow.model.tables {
                if !p.has_table(name) {
                    return p.create_table(name.as_str(), t.cols.iter().map(|c| c.build()).collect());
                }
            }
            Ok(())
        }
        OpSeed::DropTable { .. } => {
            let names: Vec<String> = p.tables().map(|t| t.name().to_string()).filter(|n| !seq::RESERVED.contains(&n.as_str())).collect();
            for n in names {
                if !shadow.model.tables.contains_key(&n) {
                    return p.drop_table(&n);
                }
            }
            Ok(())
        }
        OpSeed::Insert { .. } | OpSeed::Update { .. } | OpSeed::Delete { .. } => {
            // bring every table to the shadow's content: delete all + insert
            for (name, t) in &shadow.model.tables {
                if p.has_table(name) {
                    p.delete_rows(Delete::from(name.as_str()))?;
                    let rows: Vec<Vec<Value>> = t.rows.values().map(|r| r.iter().map(|v| v.to_msi()).collect()).collect();
                    if !rows.is_empty() {
                        p.insert_rows(Insert::into(name.as_str()).rows(rows))?;
                    }
                }
            }
            Ok(())
        }
        OpSeed::WriteStream { .. } | OpSeed::RemoveStream { .. } => {
            let have: Vec<String> = p.streams().collect();
            for n in &have {
                if !shadow.model.streams.contains_key(n) {
                    p.remove_stream(n)?;
                }
            }
            for (n, data) in &shadow.model.streams {
                let mut w = p.write_stream(n)?;
                w.write_all(data)?;
                w.flush()?;
            }
            Ok(())
        }
        OpSeed::Summary { .. } => {
            let m = &shadow.model.summary;
            let s = p.summary_info_mut();
            match &m.title {
                Some(t) => s.set_title(t.clone()),
                None => s.clear_title(),
            }
            match &m.author {
                Some(t) => s.set_author(t.clone()),
                None => s.clear_author(),
            }
            match &m.subject {
                Some(t) => s.set_subject(t.clone()),
                None => s.clear_subject(),
            }
            match &m.comments {
                Some(t) => s.set_comments(t.clone()),
                None => s.clear_comments(),
            }
            match m.word_count {
                Some(w) => s.set_word_count(w),
                None => s.clear_word_count(),
            }
            Ok(())
        }
        OpSeed::SummaryCodepage(_) => {
            if let Some(pg) = crate::cpref::page_by_id(shadow.model.summary.codepage) {
                p.summary_info_mut().set_codepage(pg.cp);
            }
            Ok(())
        }
        OpSeed::DbCodepage(_) => {
            if let Some(pg) = crate::cpref::page_by_id(shadow.model.db_cp) {
                p.set_database_codepage(pg.cp);
            }
            Ok(())
        }
        OpSeed::Select { .. } | OpSeed::Reopen(_) => Ok(()),
    }
}

pub fn check_generated(g: &GenFault) -> Result<bool, Fail> {
    let (want, _, counts) = run_generated(&g.seq, None)?;
    let mut plan = g.plan;
    if let Some(f) = g.frac {
        let n = match plan.kind { Kind::Write => counts.writes, Kind::Read => counts.reads, Kind::Seek => counts.seeks };
        plan.k = (f as u64 * n) >> 16;
    }
    let g = &GenFault { seq: g.seq.clone(), plan, frac: None };
    let (got, hit, _) = run_generated(&g.seq, Some(g.plan))?;
    for (j, p) in got.iter().enumerate() {
        if let Some(res) = p {
            let reference = match want.get(j) {
                Some(Some(Ok(s))) => s,
                _ => continue, // the fault-free run itself has nothing to compare with here
            };
            match res {
                Err(e) => return Err(Fail::new(format!("{P} silent-loss script=generated kind={:?}", g.plan.kind), format!("under {:?} every call up to save point {j} returned Ok, but the medium is unreadable: {e}", g.plan))),
                Ok(snap) => {
                    if let Some((part, d)) = reference.canon().diff(&snap.canon()) {
                        return Err(Fail::new(format!("{P} silent-loss script=generated kind={:?}", g.plan.kind), format!("under {:?} every call up to save point {j} returned Ok, but reopening shows a different {part}: {}", g.plan, crate::engine::clip(&d, 300))));
                    }
                }
            }
        }
    }
    Ok(hit)
}

pub fn run(ctx: &Ctx) -> Report {
    let mut rep = Report::new(
        "fault_enumeration",
        "three fixed scripts — (a) create, create table, batch insert with strings, 20,000-byte stream, summary change, flush, more inserts / update / delete / second table, flush, small stream, drop table, into_inner; (b) open of a prepared package whose pool holds 3,200 strings and whose table streams exceed 8 KiB, insert, update, flush, delete, into_inner; (c) two integer tables grown to exactly 4,096 and 8,192 bytes, one row more, and back, with a flush after each size — and, for each, EVERY index k of the write, read and seek calls the fault-free run issues to the medium, under a transient fault (only call k fails) and a persistent one (call k and all later calls of that kind fail); both tiers add generated scripts from the C01 profile (12,000 quick / 200,000 thorough) under generated plans whose fault index is a generated fraction of the calls the script's own fault-free run issues, so that every plan lands inside the run. Oracle: whenever a flush or into_inner returns Ok after calls that all returned Ok, the bytes on the medium at that instant are reopened on a clean medium and must equal the fault-free run's state at that point; no plan may cause a panic. Non-trivial = the plan's fault was actually hit; distinct by (script, kind, k, mode).",
    );
    rep.assumptions.push("dropping a Package without flush / into_inner promises nothing (Drop cannot report), so scripts end in an explicit into_inner; the harness flushes every StreamWriter explicitly".into());
    let mut st = Stats::new();
    let prepared = prepared_bytes();
    for id in ["a", "b", "c"] {
        let s = script(id, &prepared);
        let (counts, reference) = match reference(&s) {
            Ok(x) => x,
            Err(f) => {
                rep.violations.push(crate::engine::Violation { sig: f.sig, detail: f.detail, case: json!({"kind": "reference", "case": id}) });
                continue;
            }
        };
        st.notes.push(format!("script {id}: fault-free run issues {} writes, {} reads, {} seeks", counts.writes, counts.reads, counts.seeks));
        let mut plans: Vec<FaultCase> = Vec::new();
        for (kind, n) in [(Kind::Write, counts.writes), (Kind::Read, counts.reads), (Kind::Seek, counts.seeks)] {
            for k in 0..n {
                for persistent in [false, true] {
                    plans.push(FaultCase { script: id.to_string(), plan: Plan { kind, k, persistent } });
                }
            }
        }
        let v = par_enumerate(ctx, "fault", &plans, |fc, st| {
            st.eval();
            // scripts hold Rc-based closures: rebuild per thread call (cheap)
            let s = script(&fc.script, &prepared);
            let hit = check_plan(&s, &reference, fc.plan)?;
            if hit {
                st.nontrivial(fc);
                st.class(&format!("script-{}:{:?}:{}", fc.script, fc.plan.kind, if fc.plan.persistent { "persistent" } else { "transient" }));
            }
            if st.wants_sample() && fc.plan.k % 977 == 13 {
                st.sample(json!(fc));
            }
            Ok(())
        }, &mut st);
        rep.push(v);
    }
    {
        let n = if ctx.tier == crate::engine::Tier::Thorough { 200_000 } else { 12_000 };
        let v = crate::engine::search(
            ctx,
            "generated",
            n,
            || (seq::seq_case(W_PERSIST, 10), prop_oneof![3 => Just(Kind::Write), 1 => Just(Kind::Read), 2 => Just(Kind::Seek)], any::<u16>(), any::<bool>()).prop_map(|(seq, kind, f, persistent)| GenFault { seq, plan: Plan { kind, k: 0, persistent }, frac: Some(f) }),
            |g: &GenFault, st| {
                st.eval();
                let hit = check_generated(g)?;
                if hit {
                    st.nontrivial(g);
                    st.class("generated:hit");
                }
                Ok(())
            },
            &mut st,
        );
        rep.push(v);
    }
    st.exhaustive = Some(true);
    rep.extra.insert("exhaustive_over".into(), json!("every write, read and seek index of scripts (a) and (b), both fault modes"));
    rep.stats = st;
    rep
}

pub fn replay(_ctx: &Ctx, doc: &J) -> Check {
    let bad = |e: serde_json::Error| Fail::new(format!("{P} bad-replay"), e.to_string());
    match doc["kind"].as_str().unwrap_or("") {
        "fault" => check_fault(&serde_json::from_value::<FaultCase>(doc["case"].clone()).map_err(bad)?, &prepared_bytes()),
        "generated" => check_generated(&serde_json::from_value::<GenFault>(doc["case"].clone()).map_err(bad)?).map(|_| ()),
        "reference" => Ok(()),
        k => Err(Fail::new(format!("{P} bad-replay"), format!("unknown case kind {k:?}"))),
    }
}

#[allow(dead_code)]
fn _unused<T: ValueTree>(_: T) {}
