//! C08 — saved files are well-formed MSI databases with exact string
//! accounting, as seen by the independent decoder.

use crate::engine::{search, Check, Ctx, Fail, Report, Stats};
use crate::fmt::{self, Cell, Decoded};
use crate::model::{ColDef, Ty};
use crate::observe::Snapshot;
use crate::refeval::V;
use crate::seq::{self, CloseMode, OpSeed, Outcome, Profile, Run, SeqCase, Weights};
use serde_json::{json, Value as J};
use std::collections::BTreeMap;

const P: &str = "C08";

pub const W_FILES: Weights = Weights { create: 8, drop: 5, insert: 14, update: 8, delete: 8, select: 0, wstream: 2, rstream: 1, summary: 1, sum_cp: 0, db_cp: 2, flush: 0, reopen: 3 };
pub const FILES: Profile = Profile { name: "files", allow_empty: true, allow_key_update: true, allow_long: true, codepages: true, non_ascii: true, try_invalid: false };

/// The bits of the column type word that the format description fixes for
/// the attributes the API reports.
pub fn expected_type_bits(c: &ColDef) -> (i32, i32) {
    let mask = 0xff | fmt::T_STRING | fmt::T_NULLABLE | fmt::T_KEY | fmt::T_LOCALIZABLE | fmt::T_VALID;
    let mut w = fmt::T_VALID;
    match c.ty {
        Ty::I16 => w |= 2,
        Ty::I32 => w |= 4,
        Ty::Str(n) => w |= fmt::T_STRING | (n as i32 & 0xff),
    }
    if c.nullable {
        w |= fmt::T_NULLABLE;
    }
    if c.key {
        w |= fmt::T_KEY;
    }
    if c.localizable {
        w |= fmt::T_LOCALIZABLE;
    }
    (mask, w)
}

fn cell_value(d: &Decoded, c: &Cell) -> Result<V, String> {
    Ok(match c {
        Cell::Null => V::Null,
        Cell::Int(i) => V::Int(*i),
        Cell::Ref(r) => V::Str(d.pool.text(*r)?),
    })
}

/// Checks saved bytes against what the API reported (`snap`, taken from the
/// package that wrote them).  Returns (kind, detail) of the first problem.
/// `exact_counts`: refcount must equal the number of referencing cells
/// (false: `>=`, for files whose input over-counted).
pub fn check_file(bytes: &[u8], snap: &Snapshot, exact_counts: bool) -> Result<Decoded, (String, String)> {
    check_file_opts(bytes, snap, exact_counts, true)
}

/// `strict_types`: compare the width / nullable bits of the type words too
/// (false for files of foreign origin, where an integer may be declared with
/// width 1 and nullability may come from `_Validation` alone).
pub fn check_file_opts(bytes: &[u8], snap: &Snapshot, exact_counts: bool, strict_types: bool) -> Result<Decoded, (String, String)> {
    let d = fmt::decode(bytes).map_err(|e| ("undecodable".to_string(), e))?;
    if d.clsid != fmt::clsid_for(snap.ptype) {
        return Err(("clsid".into(), format!("root CLSID {} does not encode package type {}", d.clsid, snap.ptype)));
    }
    if d.pool.codepage_id != snap.db_cp && !(snap.db_cp == 65001 && d.pool.codepage_id == 0) {
        return Err(("pool-codepage".into(), format!("pool header says code page {}, the API says {}", d.pool.codepage_id, snap.db_cp)));
    }
    // catalog: exactly the existing tables, columns numbered 1..n with the prescribed type words
    let mut listed = d.table_list.clone();
    listed.sort();
    let mut existing: Vec<String> = snap.tables.keys().filter(|n| n.as_str() != "_Tables" && n.as_str() != "_Columns").cloned().collect();
    existing.sort();
    if listed != existing {
        return Err(("catalog-tables".into(), format!("_Tables lists {listed:?}, the API reports {existing:?}")));
    }
    for (name, (cols, rows)) in &snap.tables {
        if name == "_Tables" || name == "_Columns" {
            continue;
        }
        let dt = d.tables.get(name).ok_or_else(|| ("catalog-tables".to_string(), format!("table {name:?} missing from the decoded catalog")))?;
        if dt.cols.len() != cols.len() {
            return Err(("catalog-columns".into(), format!("table {name:?}: _Columns has {} columns, the API reports {}", dt.cols.len(), cols.len())));
        }
        for (i, (c, (dname, word))) in cols.iter().zip(dt.cols.iter()).enumerate() {
            if &c.name != dname {
                return Err(("catalog-columns".into(), format!("table {name:?} column {}: _Columns says {dname:?}, the API says {:?}", i + 1, c.name)));
            }
            let (mut mask, want) = expected_type_bits(c);
            if !strict_types {
                mask &= !fmt::T_NULLABLE;
                if word & fmt::T_STRING == 0 {
                    mask &= !0xff;
                }
            }
            if word & mask != want & mask {
                return Err(("type-word".into(), format!("table {name:?} column {:?}: type word {word:#06x}, expected bits {want:#06x} (mask {mask:#06x}) for {c:?}", c.name)));
            }
        }
        // cells decode to exactly the rows the API reports, in file order
        if dt.rows.len() != rows.len() {
            return Err(("rows".into(), format!("table {name:?}: stream holds {} rows, the API reports {}", dt.rows.len(), rows.len())));
        }
        for (ri, (dr, ar)) in dt.rows.iter().zip(rows.iter()).enumerate() {
            for (ci, (dc, av)) in dr.iter().zip(ar.iter()).enumerate() {
                let dv = cell_value(&d, dc).map_err(|e| ("dangling-reference".to_string(), format!("table {name:?} row {ri} column {ci}: {e}")))?;
                if dv.canon() != av.canon() {
                    return Err(("cell".into(), format!("table {name:?} row {ri} column {ci}: file holds {dv:?}, the API reports {av:?}")));
                }
            }
        }
    }
    // string accounting
    let mut counts: BTreeMap<u32, u64> = BTreeMap::new();
    let mut bump = |c: &Cell| {
        if let Cell::Ref(r) = c {
            *counts.entry(*r).or_insert(0) += 1;
        }
    };
    for c in &d.catalog_cells {
        bump(c);
    }
    for t in d.tables.values() {
        for r in &t.rows {
            for c in r {
                bump(c);
            }
        }
    }
    for (r, n) in &counts {
        if *r as usize > d.pool.entries.len() {
            return Err(("dangling-reference".into(), format!("a cell refers to string {r}, the pool has {} entries", d.pool.entries.len())));
        }
        let e = &d.pool.entries[*r as usize - 1];
        if e.refcount == 0 {
            return Err(("reference-to-dead-entry".into(), format!("{n} cells refer to pool entry {r}, whose reference count is 0")));
        }
    }
    for (i, e) in d.pool.entries.iter().enumerate() {
        let n = counts.get(&(i as u32 + 1)).copied().unwrap_or(0);
        let text = String::from_utf8_lossy(&e.bytes[..e.bytes.len().min(24)]).to_string();
        if e.refcount == 0 && !e.bytes.is_empty() {
            return Err(("dead-entry-with-text".into(), format!("pool entry {} has reference count 0 but holds {} bytes ({text:?})", i + 1, e.bytes.len())));
        }
        if e.refcount > 0 && e.bytes.is_empty() {
            return Err(("live-empty-entry".into(), format!("pool entry {} is live (count {}) and empty", i + 1, e.refcount)));
        }
        let ok = if exact_counts { e.refcount as u64 == n } else { e.refcount as u64 >= n };
        if !ok {
            return Err((
                "refcount".into(),
                format!("pool entry {} ({text:?}) has reference count {} but {n} cells refer to it", i + 1, e.refcount),
            ));
        }
    }
    if d.pool.data_consumed != d.pool.data_len {
        return Err(("string-data-length".into(), format!("_StringData has {} bytes, the pool entries account for {}", d.pool.data_len, d.pool.data_consumed)));
    }
    Ok(d)
}

fn fail(kind: &str, detail: &str, when: &str, trace: &str) -> Fail {
    Fail::new(format!("{P} {kind} saved-by={when}"), format!("{detail}; history: {trace}"))
}

/// Driver A: flush on the live package after every step.
pub fn check_seq(case: &SeqCase, st: &mut Stats) -> Check {
    let mut run = Run::create(P, case.ptype, &FILES)?;
    let snap0 = run.snapshot(P)?;
    check_file(&run.buf.bytes(), &snap0, true).map_err(|(k, d)| fail(&k, &d, "create", &run.trace_text()))?;
    for op in &case.ops {
        let out = match run.apply(P, op) {
            Ok(o) => o,
            Err(f) if f.sig.contains("unexpected-error") || f.sig.contains("update-created") => Outcome::Applied,
            Err(f) => return Err(f),
        };
        match out {
            Outcome::Skipped => continue,
            Outcome::Reopened(mode, before, _after, bytes) => {
                check_file(&bytes, &before, true).map_err(|(k, d)| fail(&k, &d, &format!("{mode:?}"), &run.trace_text()))?;
            }
            _ => {
                let trace = run.trace_text();
                run.pkg().flush().map_err(|e| Fail::new(format!("{P} unexpected-error op=Flush"), format!("{e}; history: {trace}")))?;
                let snap = run.snapshot(P)?;
                check_file(&run.buf.bytes(), &snap, true).map_err(|(k, d)| fail(&k, &d, "flush-after-step", &trace))?;
            }
        }
    }
    for c in run.classes.iter() {
        st.class(c);
    }
    if run.classes.iter().any(|c| matches!(*c, "delete-removed-rows" | "drop-nonempty-table" | "update-assigns-key")) {
        st.nontrivial(case);
    }
    Ok(())
}

/// Driver B: every prefix replayed on a fresh package and closed once, so the
/// result does not depend on earlier flushes having reset the "modified" flags.
pub fn check_prefixes(case: &SeqCase, st: &mut Stats) -> Check {
    let muts: Vec<OpSeed> = case.ops.iter().filter(|o| !matches!(o, OpSeed::Reopen(_) | OpSeed::Flush)).take(10).cloned().collect();
    for i in 1..=muts.len() {
        st.eval();
        let mut run = Run::create(P, case.ptype, &FILES)?;
        for op in &muts[..i] {
            match run.apply(P, op) {
                Ok(_) => {}
                Err(f) if f.sig.contains("unexpected-error") || f.sig.contains("update-created") => {}
                Err(f) => return Err(f),
            }
        }
        let mode = seq::close_mode(case.final_close.wrapping_add(i as u8));
        let (before, _after, bytes) = run.reopen(P, mode)?;
        check_file(&bytes, &before, true).map_err(|(k, d)| fail(&k, &d, &format!("fresh-prefix-{mode:?}"), &run.trace_text()))?;
        if i == muts.len() {
            for c in run.classes.iter() {
                st.class(c);
            }
        }
    }
    st.class("prefix-sweep");
    st.nontrivial(&("prefixes", case));
    Ok(())
}

/// More than 65,535 references to one string, all taken by one insert (reference-count cap).
pub fn check_refcount_cap(rows: u32) -> Check {
    use msi::{Column, Insert, Package, PackageType, Value};
    let buf = crate::media::SharedBuf::new(Vec::new());
    let e = |what: &str, e: std::io::Error| Fail::new(format!("{P} unexpected-error op={what}"), e.to_string());
    let mut pkg = Package::create(PackageType::Installer, buf.clone()).map_err(|x| e("create", x))?;
    pkg.create_table("T", vec![Column::build("k").primary_key().int32(), Column::build("v").string(8), Column::build("w").nullable().string(8)]).map_err(|x| e("create_table", x))?;
    let mut batch = Vec::new();
    for i in 0..rows {
        batch.push(vec![Value::Int(i as i32 + 1), Value::from("same"), if i % 2 == 0 { Value::from("same") } else { Value::Null }]);
    }
    pkg.insert_rows(Insert::into("T").rows(batch)).map_err(|x| e("insert", x))?;
    pkg.flush().map_err(|x| e("flush", x))?;
    let snap = crate::observe::observe(&mut pkg).map_err(|x| Fail::new(format!("{P} observer-inconsistent"), x))?;
    check_file(&buf.bytes(), &snap, true).map(|_| ()).map_err(|(k, d)| fail(&k, &d, "flush", &format!("{rows} rows referring to one string twice every other row")))
}

/// A creation that runs out of pool entries part-way (the names fit, the
/// `_Validation` strings do not, or the other way round): whatever it
/// returns, the saved file must be consistent with what the API reports.
pub fn check_near_full_pool(room: u32) -> Check {
    use msi::{Column, Package};
    let bytes = crate::props::c20::file_with_pool(65_535 - room)?;
    let buf = crate::media::SharedBuf::new(bytes);
    let e = |what: &str, e: std::io::Error| Fail::new(format!("{P} unexpected-error op={what}"), e.to_string());
    let mut pkg = Package::open(buf.clone()).map_err(|x| e("open", x))?;
    let r = pkg.create_table("Extra", vec![Column::build("FirstNewName").primary_key().int16(), Column::build("SecondNewName").nullable().enum_values(&["A", "B"]).string(8)]);
    pkg.flush().map_err(|x| e("flush", x))?;
    let snap = crate::observe::observe(&mut pkg).map_err(|x| Fail::new(format!("{P} observer-inconsistent"), x))?;
    check_file(&buf.bytes(), &snap, true)
        .map(|_| ())
        .map_err(|(k, d)| fail(&k, &d, "flush", &format!("a pool with room for {room} more strings; create_table(Extra) needing 4 returned {}", if r.is_ok() { "Ok" } else { "Err" })))
}

/// One text live in two pool entries (interning takes a free lower slot
/// before it reaches the existing entry further up), then operations that
/// select rows by that text: a drop of the table of that name (`variant` 0),
/// a delete by equality on a user table (1), an update by equality (2).
pub fn check_duplicate_text(variant: u32) -> Check {
    use msi::{Column, Delete, Expr, Insert, Package, PackageType, Update, Value};
    let buf = crate::media::SharedBuf::new(Vec::new());
    let e = |what: &str, e: std::io::Error| Fail::new(format!("{P} unexpected-error op={what}"), e.to_string());
    let mut pkg = Package::create(PackageType::Installer, buf.clone()).map_err(|x| e("create", x))?;
    pkg.create_table("A", vec![Column::build("k").primary_key().string(0), Column::build("v").nullable().string(0)]).map_err(|x| e("create_table A", x))?;
    pkg.insert_rows(Insert::into("A").row(vec![Value::from("early one"), Value::from("early two")])).map_err(|x| e("insert", x))?;
    pkg.create_table("Foo", vec![Column::build("Bar").primary_key().int16(), Column::build("Baz").nullable().string(0)]).map_err(|x| e("create_table Foo", x))?;
    pkg.insert_rows(Insert::into("Foo").row(vec![Value::Int(1), Value::from("Foo")]).row(vec![Value::Int(2), Value::from("other")])).map_err(|x| e("insert Foo", x))?;
    // free two entries that lie below everything the second table brought
    pkg.delete_rows(Delete::from("A")).map_err(|x| e("delete", x))?;
    // these texts exist further up; they now also go into the freed entries
    pkg.insert_rows(Insert::into("A").row(vec![Value::from("Foo"), Value::from("Baz")])).map_err(|x| e("insert duplicates", x))?;
    let what = match variant {
        0 => {
            pkg.drop_table("Foo").map_err(|x| e("drop_table", x))?;
            "drop_table(Foo)"
        }
        1 => {
            pkg.delete_rows(Delete::from("Foo").with(Expr::col("Baz").eq(Expr::string("Foo")))).map_err(|x| e("delete by text", x))?;
            "delete(Foo where Baz = \"Foo\")"
        }
        _ => {
            pkg.update_rows(Update::table("Foo").set("Baz", Value::from("changed")).with(Expr::col("Baz").eq(Expr::string("Foo")))).map_err(|x| e("update by text", x))?;
            "update(Foo set Baz = \"changed\" where Baz = \"Foo\")"
        }
    };
    // what the API reports must be what the relational reading says ...
    let snap = crate::observe::observe(&mut pkg).map_err(|x| Fail::new(format!("{P} observer-inconsistent"), x))?;
    let foo_rows: Option<usize> = snap.tables.get("Foo").map(|t| t.1.len());
    let expect = match variant {
        0 => None,
        1 => Some(1),
        _ => Some(2),
    };
    if foo_rows != expect {
        return Err(fail("api-state", &format!("after {what} table Foo has {foo_rows:?} rows, expected {expect:?}"), "immediately", "A holds the texts \"Foo\" and \"Baz\" in pool entries below the ones table Foo uses"));
    }
    // ... and the saved file must say the same
    pkg.flush().map_err(|x| e("flush", x))?;
    check_file(&buf.bytes(), &snap, true).map(|_| ()).map_err(|(k, d)| fail(&k, &d, "flush", &format!("texts live in two pool entries, then {what}")))
}

pub fn run(ctx: &Ctx) -> Report {
    let mut rep = Report::new(
        "exploration",
        "the saved bytes after every prefix of generated operation sequences (creates, drops of non-empty tables, inserts, updates, deletes, slot reuse, strings shared between user tables and the catalog, database code-page switches, long strings), saved (A) by flush on the live package after each step and at each reopen in all three close modes and (B) by replaying each prefix on a fresh package and closing once; decoded by the independent decoder and compared with what the API reported: whole rows of the widths the type words dictate, cells equal to API rows, catalog == existing tables with columns 1..n and prescribed type-word bits, for every pool entry refcount == number of referencing cells, dead entries empty, no live empty entry, _StringData exactly the concatenation. Non-trivial = the history freed a pool slot (delete / update of a key / drop of a non-empty table); distinct by op list.",
    );
    rep.assumptions.push("leftover bytes in free container sectors are not examined: the property speaks of the file's string data, i.e. the _StringData stream".into());
    let mut st = Stats::new();
    let max_ops = ctx.tier.pick(12, 30);
    let v = search(ctx, "seq", ctx.tier.pick(25_000, 250_000), || seq::seq_case(W_FILES, max_ops), |c: &SeqCase, st| {
        st.eval();
        if st.wants_sample() && c.ops.len() > 5 && st.evaluations % 23 == 2 {
            st.sample(json!({"ops": c.ops.iter().map(|o| o.kind()).collect::<Vec<_>>()}));
        }
        check_seq(c, st)
    }, &mut st);
    rep.push(v);
    let v = search(ctx, "prefixes", ctx.tier.pick(4_000, 40_000), || seq::seq_case(W_FILES, 10), |c: &SeqCase, st| check_prefixes(c, st), &mut st);
    rep.push(v);
    {
        // one insert that takes a pool entry to, and past, the 65,535
        // references one entry can count (the next reference opens a second
        // entry with the same text)
        let cap_cases: &[u32] = if ctx.tier == crate::engine::Tier::Thorough { &[43_690, 43_691, 43_700, 65_536] } else { &[43_690, 43_691] };
        for &rows in cap_cases {
            st.eval();
            st.class("refcount-cap");
            if let Err(f) = check_refcount_cap(rows) {
                if !ctx.is_known(&f.sig) {
                    rep.violations.push(crate::engine::Violation { sig: f.sig, detail: f.detail, case: json!({"kind": "cap", "case": rows}) });
                    break;
                }
            }
        }
    }
    for variant in 0..3u32 {
        st.eval();
        st.class("duplicate-pool-text");
        if let Err(f) = check_duplicate_text(variant) {
            if !ctx.is_known(&f.sig) {
                rep.violations.push(crate::engine::Violation { sig: f.sig, detail: f.detail, case: json!({"kind": "duptext", "case": variant}) });
                break;
            }
        }
    }
    for room in 0..=5u32 {
        st.eval();
        st.class("near-full-pool");
        if let Err(f) = check_near_full_pool(room) {
            if !ctx.is_known(&f.sig) {
                rep.violations.push(crate::engine::Violation { sig: f.sig, detail: f.detail, case: json!({"kind": "nearfull", "case": room}) });
                break;
            }
        }
    }
    rep.stats = st;
    rep
}

pub fn replay(_ctx: &Ctx, doc: &J) -> Check {
    let kind = doc["kind"].as_str().unwrap_or("");
    let bad = |e: serde_json::Error| Fail::new(format!("{P} bad-replay"), e.to_string());
    let mut st = Stats::new();
    match kind {
        "seq" => check_seq(&serde_json::from_value::<SeqCase>(doc["case"].clone()).map_err(bad)?, &mut st),
        "prefixes" => check_prefixes(&serde_json::from_value::<SeqCase>(doc["case"].clone()).map_err(bad)?, &mut st),
        "cap" => check_refcount_cap(doc["case"].as_u64().unwrap_or(0) as u32),
        "duptext" => check_duplicate_text(doc["case"].as_u64().unwrap_or(0) as u32),
        "nearfull" => check_near_full_pool(doc["case"].as_u64().unwrap_or(0) as u32),
        _ => Err(Fail::new(format!("{P} bad-replay"), format!("unknown case kind {kind:?}"))),
    }
}

#[allow(dead_code)]
fn _unused(_: CloseMode) {}
