//! C03 — insert, update, delete and select follow the relational model.

use crate::engine::{par_enumerate, search, Check, Ctx, Fail, Report, Stats};
use crate::media::SharedBuf;
use crate::observe::read_rows;
use crate::refeval::V;
use crate::seq::{self, user_view, OpSeed, Outcome, Run, SeqCase, Weights, Profile};
use msi::{Column, Delete, Expr, Insert, Package, PackageType, Select, Update, Value};
use serde::{Deserialize, Serialize};
use serde_json::{json, Value as J};
use std::collections::BTreeMap;

const P: &str = "C03";

pub const W_DML: Weights = Weights { create: 4, drop: 1, insert: 14, update: 10, delete: 6, select: 10, wstream: 2, rstream: 1, summary: 2, sum_cp: 0, db_cp: 0, flush: 1, reopen: 3 };
pub const DML: Profile = Profile { name: "dml", allow_empty: true, allow_key_update: true, allow_long: true, codepages: false, non_ascii: true, try_invalid: false };

/// After every step: every user table, every stream and the summary equal
/// the model (this is also the frame condition: what the op did not name is
/// untouched).
pub fn check_seq(case: &SeqCase, st: &mut Stats) -> Check {
    let mut run = Run::create(P, case.ptype, &DML)?;
    let mut changed = false;
    for op in &case.ops {
        let before_model = run.model.clone();
        let out = run.apply(P, op)?;
        if matches!(out, Outcome::Skipped) {
            continue;
        }
        if run.model.tables != before_model.tables && !matches!(op, OpSeed::CreateTable { .. } | OpSeed::DropTable { .. }) {
            changed = true;
        }
        let snap = run.snapshot(P)?;
        // the catalog lists exactly the user tables (plus the validation table)
        if let Some((_, rows)) = snap.tables.get("_Tables") {
            let mut listed: Vec<String> = rows.iter().filter_map(|r| if let V::Str(s) = &r[0] { Some(s.clone()) } else { None }).collect();
            listed.sort();
            let mut want: Vec<String> = run.model.tables.keys().cloned().collect();
            want.push("_Validation".to_string());
            want.sort();
            if listed != want {
                return Err(Fail::new(format!("{P} catalog-differs after={}", op.kind()), format!("_Tables lists {listed:?}, expected {want:?}; history: {}", run.trace_text())));
            }
        }
        if let Some((part, what)) = run.model.expected().diff(&user_view(&snap)) {
            return Err(Fail::new(
                format!("{P} model-differs part={part} after={}", op.kind()),
                format!("model vs package differ in {part}: {what}; history: {}", run.trace_text()),
            ));
        }
    }
    for c in run.classes.iter() {
        st.class(c);
    }
    if changed || run.classes.contains(&"select-splits-rows") {
        st.nontrivial(case);
    }
    Ok(())
}

// ------------------------------------------------------------------------- //
// Bounded-exhaustive driver over a small alphabet of concrete ops on one
// two-column table.

#[derive(Clone, Copy, Debug, PartialEq, Eq, Hash, Serialize, Deserialize)]
pub enum Mini {
    Ins1a,
    Ins2Null,
    InsBatch03,
    UpdV1b,
    UpdAllNull,
    UpdKey1to5,
    UpdKeyAll7,
    Del2,
    DelAll,
    DelVa,
    SelVa,
    Reopen,
}

pub const ALPHABET: [Mini; 12] = [
    Mini::Ins1a, Mini::Ins2Null, Mini::InsBatch03, Mini::UpdV1b, Mini::UpdAllNull, Mini::UpdKey1to5, Mini::UpdKeyAll7, Mini::Del2, Mini::DelAll, Mini::DelVa, Mini::SelVa, Mini::Reopen,
];

type MiniModel = BTreeMap<i32, Option<String>>;

fn s(x: &str) -> Option<String> {
    Some(x.to_string())
}

fn step_mini(state: (SharedBuf, Package<SharedBuf>, MiniModel), ops: &[Mini], step: usize) -> Result<(SharedBuf, Package<SharedBuf>, MiniModel), Fail> {
    let (buf, mut pkg, mut model) = state;
    let op = ops[step];
    let ctx = || format!("mini sequence {:?}, step {step} ({op:?})", ops);
    let unexpected = |e: std::io::Error| Fail::new(format!("{P} unexpected-error op={op:?}"), format!("{}: {e}", ctx()));
    let val = |o: &Option<String>| match o {
        Some(x) => Value::Str(x.clone()),
        None => Value::Null,
    };
    match op {
        Mini::Ins1a | Mini::Ins2Null | Mini::InsBatch03 => {
            let rows: Vec<(i32, Option<String>)> = match op {
                Mini::Ins1a => vec![(1, s("a"))],
                Mini::Ins2Null => vec![(2, None)],
                _ => vec![(3, s("a")), (0, s("c"))],
            };
            let dup = rows.iter().any(|r| model.contains_key(&r.0));
            let res = pkg.insert_rows(Insert::into("T").rows(rows.iter().map(|r| vec![Value::Int(r.0), val(&r.1)]).collect()));
            match (dup, res) {
                (true, Ok(())) => return Err(Fail::new(format!("{P} insert-accepted-duplicate"), format!("{}: insert with an existing key succeeded", ctx()))),
                (true, Err(_)) => {}
                (false, Err(e)) => return Err(unexpected(e)),
                (false, Ok(())) => {
                    for r in rows {
                        model.insert(r.0, r.1);
                    }
                }
            }
        }
        Mini::UpdV1b => {
            pkg.update_rows(Update::table("T").set("v", Value::from("b")).with(Expr::col("k").eq(Expr::integer(1)))).map_err(unexpected)?;
            if let Some(v) = model.get_mut(&1) {
                *v = s("b");
            }
        }
        Mini::UpdAllNull => {
            pkg.update_rows(Update::table("T").set("v", Value::Null)).map_err(unexpected)?;
            for v in model.values_mut() {
                *v = None;
            }
        }
        Mini::UpdKey1to5 => {
            let collide = model.contains_key(&1) && model.contains_key(&5);
            let res = pkg.update_rows(Update::table("T").set("k", Value::Int(5)).with(Expr::col("k").eq(Expr::integer(1))));
            match (collide, res) {
                (true, Ok(())) => return Err(Fail::new(format!("{P} update-created-duplicate-keys"), format!("{}: update made two rows share key 5 and returned Ok", ctx()))),
                (true, Err(_)) => {}
                (false, Err(e)) => return Err(unexpected(e)),
                (false, Ok(())) => {
                    if let Some(v) = model.remove(&1) {
                        model.insert(5, v);
                    }
                }
            }
        }
        Mini::UpdKeyAll7 => {
            let collide = model.len() > 1;
            let res = pkg.update_rows(Update::table("T").set("k", Value::Int(7)));
            match (collide, res) {
                (true, Ok(())) => return Err(Fail::new(format!("{P} update-created-duplicate-keys"), format!("{}: update gave {} rows the key 7 and returned Ok", ctx(), model.len()))),
                (true, Err(_)) => {}
                (false, Err(e)) => return Err(unexpected(e)),
                (false, Ok(())) => {
                    let vals: Vec<Option<String>> = model.values().cloned().collect();
                    model.clear();
                    for v in vals {
                        model.insert(7, v);
                    }
                }
            }
        }
        Mini::Del2 => {
            pkg.delete_rows(Delete::from("T").with(Expr::col("k").eq(Expr::integer(2)))).map_err(unexpected)?;
            model.remove(&2);
        }
        Mini::DelAll => {
            pkg.delete_rows(Delete::from("T")).map_err(unexpected)?;
            model.clear();
        }
        Mini::DelVa => {
            pkg.delete_rows(Delete::from("T").with(Expr::col("v").eq(Expr::string("a")))).map_err(unexpected)?;
            model.retain(|_, v| v.as_deref() != Some("a"));
        }
        Mini::SelVa => {
            let rows = pkg.select_rows(Select::table("T").columns(&["v", "k"]).with(Expr::col("v").eq(Expr::string("a")))).map_err(unexpected)?;
            let announced = rows.len();
            let got: Vec<(V, V)> = rows.map(|r| (V::from_msi(&r[0]), V::from_msi(&r[1]))).collect();
            let want: Vec<(V, V)> = model.iter().filter(|(_, v)| v.as_deref() == Some("a")).map(|(k, _)| (V::Str("a".into()), V::Int(*k))).collect();
            if got != want || announced != got.len() {
                return Err(Fail::new(format!("{P} select-wrong-rows"), format!("{}: select v,k where v='a' returned {got:?} (announced {announced}), expected {want:?}", ctx())));
            }
        }
        Mini::Reopen => {
            drop(pkg);
            let nb = SharedBuf::new(buf.bytes());
            let pkg2 = Package::open(nb.clone()).map_err(|e| Fail::new(format!("{P} reopen-error"), format!("{}: {e}", ctx())))?;
            let mut st = (nb, pkg2, model);
            verify_mini(&mut st.1, &st.2, &ctx())?;
            return Ok(st);
        }
    }
    verify_mini(&mut pkg, &model, &ctx())?;
    Ok((buf, pkg, model))
}

fn verify_mini(pkg: &mut Package<SharedBuf>, model: &MiniModel, ctx: &str) -> Check {
    let rows = read_rows(pkg, "T").map_err(|e| Fail::new(format!("{P} observer-inconsistent"), format!("{ctx}: {e}")))?;
    let want: Vec<Vec<V>> = model.iter().map(|(k, v)| vec![V::Int(*k), v.clone().map(V::Str).unwrap_or(V::Null)]).collect();
    if rows != want {
        return Err(Fail::new(format!("{P} model-differs part=rows"), format!("{ctx}: table T holds {rows:?}, the relational model says {want:?}")));
    }
    let other = read_rows(pkg, "Other").map_err(|e| Fail::new(format!("{P} observer-inconsistent"), format!("{ctx}: {e}")))?;
    if other != vec![vec![V::Int(9)]] {
        return Err(Fail::new(format!("{P} frame-violated"), format!("{ctx}: the untouched table Other now holds {other:?}")));
    }
    Ok(())
}

/// Entry point of the exhaustive driver (all state carried functionally so
/// that a reopen can swap the medium).
pub fn check_mini_seq(ops: &[Mini]) -> Check {
    let buf = SharedBuf::new(Vec::new());
    let mut pkg = Package::create(PackageType::Installer, buf.clone()).map_err(|e| Fail::new(format!("{P} unexpected-error op=Create"), e.to_string()))?;
    pkg.create_table("T", vec![Column::build("k").primary_key().int16(), Column::build("v").nullable().string(8)])
        .map_err(|e| Fail::new(format!("{P} unexpected-error op=CreateTable"), e.to_string()))?;
    pkg.create_table("Other", vec![Column::build("k").primary_key().int16()]).map_err(|e| Fail::new(format!("{P} unexpected-error op=CreateTable"), e.to_string()))?;
    pkg.insert_rows(Insert::into("Other").row(vec![Value::Int(9)])).map_err(|e| Fail::new(format!("{P} unexpected-error op=Insert"), e.to_string()))?;
    let mut state = (buf, pkg, BTreeMap::new());
    for step in 0..ops.len() {
        state = step_mini(state, ops, step)?;
    }
    Ok(())
}

fn all_sequences(depth: usize) -> Vec<Vec<Mini>> {
    let mut out: Vec<Vec<Mini>> = vec![vec![]];
    let mut frontier: Vec<Vec<Mini>> = vec![vec![]];
    for _ in 0..depth {
        let mut next = Vec::with_capacity(frontier.len() * ALPHABET.len());
        for sq in &frontier {
            for a in ALPHABET {
                let mut t = sq.clone();
                t.push(a);
                next.push(t);
            }
        }
        out.extend(next.iter().cloned());
        frontier = next;
    }
    out
}

pub fn run(ctx: &Ctx) -> Report {
    let mut rep = Report::new(
        "exploration",
        "late-bound operation sequences on library-created packages over user tables with single/composite, integer/string/nullable keys, rows valid for the schema, WHERE expressions over the table's columns, projections with repeats, reopen between any two ops; after every op the full API snapshot (every table, stream, summary) must equal the in-memory relational model and every select must return exactly the model's filtered, key-ordered, projected rows with a consistent length; plus all sequences up to depth 4 (5 in thorough) over an alphabet of 12 concrete ops on one two-column table (exhaustive). Non-trivial = a sequence in which a DML op changed at least one row or a select condition split the rows; distinct by op list.",
    );
    let mut st = Stats::new();
    let depth = ctx.tier.pick(4, 5);
    let seqs = all_sequences(depth);
    let v = par_enumerate(ctx, "mini", &seqs, |ops, st| {
        st.eval();
        if ops.iter().any(|o| !matches!(o, Mini::SelVa | Mini::Reopen)) {
            st.nontrivial(ops);
        }
        st.class("exhaustive-mini");
        check_mini_seq(ops)
    }, &mut st);
    rep.push(v);
    st.sample(json!({"mini": ["Ins1a", "InsBatch03", "UpdKey1to5", "Reopen"]}));

    let max_ops = ctx.tier.pick(15, 40);
    let v = search(ctx, "seq", ctx.tier.pick(60_000, 600_000), || seq::seq_case(W_DML, max_ops), |c: &SeqCase, st| {
        st.eval();
        if st.wants_sample() && c.ops.len() > 5 && st.evaluations % 37 == 2 {
            st.sample(json!({"ops": c.ops.iter().map(|o| o.kind()).collect::<Vec<_>>()}));
        }
        check_seq(c, st)
    }, &mut st);
    rep.push(v);
    st.exhaustive = Some(true);
    rep.extra.insert("exhaustive_over".into(), json!(format!("all {} sequences of length <= {depth} over the 12-op alphabet", seqs.len())));
    rep.stats = st;
    rep
}

pub fn replay(_ctx: &Ctx, doc: &J) -> Check {
    let kind = doc["kind"].as_str().unwrap_or("");
    let bad = |e: serde_json::Error| Fail::new(format!("{P} bad-replay"), e.to_string());
    let mut st = Stats::new();
    match kind {
        "seq" => check_seq(&serde_json::from_value::<SeqCase>(doc["case"].clone()).map_err(bad)?, &mut st),
        "mini" => check_mini_seq(&serde_json::from_value::<Vec<Mini>>(doc["case"].clone()).map_err(bad)?),
        _ => Err(Fail::new(format!("{P} bad-replay"), format!("unknown case kind {kind:?}"))),
    }
}
