use crate::engine::{Check, Ctx, Report};
use serde_json::Value as J;

pub mod c01;
pub mod c02;
pub mod c03;
pub mod c04;
pub mod c05;
pub mod c06;
pub mod c07;
pub mod c08;
pub mod c09;
pub mod c10;
pub mod c11;
pub mod c12;
pub mod c13;
pub mod c14;
pub mod c15;
pub mod c16;
pub mod c17;
pub mod c18;
pub mod c19;
pub mod c20;

pub struct Property {
    pub id: &'static str,
    pub run: fn(&Ctx) -> Report,
    pub replay: fn(&Ctx, &J) -> Check,
}

pub fn all() -> Vec<Property> {
    vec![
        Property { id: "C01", run: c01::run, replay: c01::replay },
        Property { id: "C02", run: c02::run, replay: c02::replay },
        Property { id: "C03", run: c03::run, replay: c03::replay },
        Property { id: "C04", run: c04::run, replay: c04::replay },
        Property { id: "C05", run: c05::run, replay: c05::replay },
        Property { id: "C06", run: c06::run, replay: c06::replay },
        Property { id: "C07", run: c07::run, replay: c07::replay },
        Property { id: "C08", run: c08::run, replay: c08::replay },
        Property { id: "C09", run: c09::run, replay: c09::replay },
        Property { id: "C10", run: c10::run, replay: c10::replay },
        Property { id: "C11", run: c11::run, replay: c11::replay },
        Property { id: "C12", run: c12::run, replay: c12::replay },
        Property { id: "C13", run: c13::run, replay: c13::replay },
        Property { id: "C14", run: c14::run, replay: c14::replay },
        Property { id: "C15", run: c15::run, replay: c15::replay },
        Property { id: "C16", run: c16::run, replay: c16::replay },
        Property { id: "C17", run: c17::run, replay: c17::replay },
        Property { id: "C18", run: c18::run, replay: c18::replay },
        Property { id: "C19", run: c19::run, replay: c19::replay },
        Property { id: "C20", run: c20::run, replay: c20::replay },
    ]
}
