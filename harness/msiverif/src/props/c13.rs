//! C13 — expression evaluation is total and follows the documented operators.

use crate::engine::{par_enumerate, search, Check, Ctx, Fail, Report, Stats};
use crate::refeval::{build, eval_ref, is_edgy, Bin, Un, ALL_BIN, ALL_UN, E, V};
use msi::{Column, Delete, Insert, Package, PackageType, Row, Select, Update, Value};
use proptest::prelude::*;
use serde_json::{json, Value as J};
use std::cell::RefCell;
use std::io::Cursor;

const P: &str = "C13";

/// (column name, value) of the single row the trees are evaluated on.
fn row_columns() -> Vec<(&'static str, V)> {
    vec![
        ("K", V::Int(1)),
        ("cN", V::Null),
        ("c0", V::Int(0)),
        ("c1", V::Int(1)),
        ("cm1", V::Int(-1)),
        ("c2", V::Int(2)),
        ("c31", V::Int(31)),
        ("c32", V::Int(32)),
        ("cMax", V::Int(i32::MAX)),
        ("cMinP", V::Int(-i32::MAX)),
        ("sE", V::Str(String::new())),
        ("sa", V::Str("a".into())),
        ("sb", V::Str("b".into())),
    ]
}

pub fn literal_leaves() -> Vec<V> {
    vec![
        V::Null, V::Int(0), V::Int(1), V::Int(-1), V::Int(2), V::Int(31), V::Int(32),
        V::Int(i32::MIN), V::Int(i32::MAX), V::Str(String::new()), V::Str("a".into()), V::Str("b".into()),
    ]
}

fn make_row() -> Rows3 {
    let mut pkg = Package::create(PackageType::Installer, Cursor::new(Vec::new())).expect("create");
    let mut cols = Vec::new();
    for (name, v) in row_columns() {
        let b = Column::build(name);
        cols.push(match (name, &v) {
            ("K", _) => b.primary_key().int16(),
            (_, V::Str(_)) => b.nullable().string(0),
            _ => b.nullable().int32(),
        });
    }
    pkg.create_table("T", cols).expect("create_table");
    let vals: Vec<Value> = row_columns().iter().map(|(_, v)| v.to_msi()).collect();
    pkg.insert_rows(Insert::into("T").row(vals)).expect("insert");
    let plain = {
        let mut rows = pkg.select_rows(Select::table("T")).expect("select");
        rows.next().expect("one row")
    };
    // the same row in two other shapes: all columns projected in reverse and
    // in rotated order (results of a projection are anonymous tables, so both
    // shapes carry the same, empty, table name)
    let names: Vec<&str> = row_columns().iter().map(|(n, _)| *n).collect();
    let reversed: Vec<&str> = names.iter().rev().copied().collect();
    let mut rotated: Vec<&str> = names.clone();
    rotated.rotate_left(5);
    let mut shaped = |cols: &[&str]| -> Row {
        let mut rows = pkg.select_rows(Select::table("T").columns(cols)).expect("select projected");
        rows.next().expect("one row")
    };
    let rev = shaped(&reversed);
    let rot = shaped(&rotated);
    Rows3 { plain, rev, rot }
}

struct Rows3 {
    plain: Row,
    rev: Row,
    rot: Row,
}

thread_local! {
    static ROW: RefCell<Option<Rows3>> = const { RefCell::new(None) };
}

fn with_rows<R>(f: impl FnOnce(&Rows3) -> R) -> R {
    ROW.with(|r| {
        let mut r = r.borrow_mut();
        if r.is_none() {
            *r = Some(make_row());
        }
        f(r.as_ref().unwrap())
    })
}


fn root_name(e: &E) -> String {
    match e {
        E::Lit(_) => "Lit".into(),
        E::Col(_) => "Col".into(),
        E::Un(op, _) => format!("{:?}", op),
        E::Bin(op, _, _) => format!("{:?}", op),
    }
}

/// Replaces column leaves by the literal the column holds.
fn literalise(e: &E, lookup: &dyn Fn(&str) -> V) -> E {
    match e {
        E::Lit(_) => e.clone(),
        E::Col(c) => E::Lit(lookup(c)),
        E::Un(op, a) => E::un(*op, literalise(a, lookup)),
        E::Bin(op, a, b) => E::bin(*op, literalise(a, lookup), literalise(b, lookup)),
    }
}

/// Evaluates one tree through `Expr::eval(&Row)`, in column form and in
/// literal form, against the reference.
pub fn check_tree(e: &E) -> Check {
    with_rows(|rows3| {
        let row = &rows3.plain;
        let lookup = |c: &str| -> V { V::from_msi(&row[c]) };
        let acc = eval_ref(e, &lookup);
        let eval_form = |tree: &E, form: &str| -> Result<V, Fail> {
            let built = crate::engine::catch(|| build(tree)).map_err(|(loc, msg)| {
                Fail::new(format!("{P} panic at={loc}"), format!("building {} ({form} form) panicked: {msg}", tree.show()))
            })?;
            let got = crate::engine::catch(|| built.eval(row)).map_err(|(loc, msg)| {
                Fail::new(format!("{P} panic at={loc}"), format!("evaluating {} ({form} form) panicked: {msg}", tree.show()))
            })?;
            Ok(V::from_msi(&got))
        };
        let got = eval_form(e, "given")?;
        if !acc.contains(&got) {
            return Err(Fail::new(
                format!("{P} wrong-result op={}", root_name(e)),
                format!("{} evaluated to {:?}; accepted: {:?}", e.show(), got, acc),
            ));
        }
        if e.has_column() {
            // one expression object, rows of differently ordered column lists:
            // a column reference is resolved by name on every evaluation
            let built = crate::engine::catch(|| build(e)).map_err(|(loc, msg)| Fail::new(format!("{P} panic at={loc}"), format!("building {} panicked: {msg}", e.show())))?;
            let shapes: Vec<(&str, Value)> = [("reversed", &rows3.rev), ("rotated", &rows3.rot), ("table order", &rows3.plain), ("reversed again", &rows3.rev)].iter().map(|(n, row)| (*n, built.eval(row))).collect();
            for (shape, v) in shapes {
                let v = V::from_msi(&v);
                if !acc.contains(&v) {
                    return Err(Fail::new(
                        format!("{P} shape-dependent op={}", root_name(e)),
                        format!("{} evaluated to {:?} on the row with its columns in {shape} order (same object evaluated on several column orders); accepted: {:?}", e.show(), v, acc),
                    ));
                }
            }
            let lit = literalise(e, &lookup);
            let got_lit = eval_form(&lit, "literal")?;
            if got_lit != got {
                return Err(Fail::new(
                    format!("{P} folding-differs op={}", root_name(e)),
                    format!("{} evaluates lazily to {:?} but built from literals ({}) to {:?}", e.show(), got, lit.show(), got_lit),
                ));
            }
        }
        Ok(())
    })
}

// ------------------------------------------------------------------------- //
// Conditions in select / update / delete on a real package.

fn cond_rows() -> Vec<Vec<V>> {
    vec![
        vec![V::Int(1), V::Int(0), V::Null, V::Str("a".into())],
        vec![V::Int(2), V::Int(1), V::Int(31), V::Str("b".into())],
        vec![V::Int(3), V::Int(-1), V::Int(32), V::Null],
        vec![V::Int(4), V::Int(i32::MAX), V::Int(-i32::MAX), V::Str("ab".into())],
        vec![V::Int(5), V::Int(2), V::Int(2), V::Str("a".into())],
        vec![V::Int(6), V::Int(-32767), V::Int(65536), V::Str("B".into())],
    ]
}
const COND_COLS: [&str; 4] = ["k", "a", "b", "s"];

fn cond_pkg() -> Package<Cursor<Vec<u8>>> {
    let mut pkg = Package::create(PackageType::Installer, Cursor::new(Vec::new())).expect("create");
    pkg.create_table(
        "T",
        vec![
            Column::build("k").primary_key().int16(),
            Column::build("a").int32(),
            Column::build("b").nullable().int32(),
            Column::build("s").nullable().string(8),
            Column::build("m").nullable().int16(),
        ],
    )
    .expect("create_table");
    let rows: Vec<Vec<Value>> = cond_rows()
        .iter()
        .map(|r| {
            let mut v: Vec<Value> = r.iter().map(|x| x.to_msi()).collect();
            v.push(Value::Null);
            v
        })
        .collect();
    pkg.insert_rows(Insert::into("T").rows(rows)).expect("insert");
    // a one-row pad table: joined in front of T it moves T's columns to
    // positions 31..35 of the joined row (stored tables stop at 32 columns,
    // join results do not)
    let mut pad = vec![Column::build("p0").primary_key().int16()];
    for i in 1..31 {
        pad.push(Column::build(format!("p{i}")).nullable().int16());
    }
    pkg.create_table("P", pad).expect("create_table P");
    let mut row = vec![Value::Int(1)];
    row.extend((1..31).map(|i| if i % 3 == 0 { Value::Null } else { Value::Int(i) }));
    pkg.insert_rows(Insert::into("P").row(row)).expect("insert P");
    pkg
}

/// The same tree with every column `c` renamed to `T.c` (its name in a join).
fn qualify(e: &E) -> E {
    match e {
        E::Lit(_) => e.clone(),
        E::Col(c) => E::Col(format!("T.{c}")),
        E::Un(op, a) => E::un(*op, qualify(a)),
        E::Bin(op, a, b) => E::bin(*op, qualify(a), qualify(b)),
    }
}

/// For each row: Some(true) must match, Some(false) must not, None either.
fn expected_matches(e: &E) -> Vec<Option<bool>> {
    cond_rows()
        .iter()
        .map(|r| {
            let lookup = |c: &str| -> V {
                let i = COND_COLS.iter().position(|x| *x == c).expect("known column");
                r[i].clone()
            };
            let acc = eval_ref(e, &lookup);
            let t: Vec<bool> = acc.iter().map(|v| v.truthy()).collect();
            if t.iter().all(|x| *x) {
                Some(true)
            } else if t.iter().all(|x| !*x) {
                Some(false)
            } else {
                None
            }
        })
        .collect()
}

pub fn check_cond(e: &E) -> Check {
    let want = expected_matches(e);
    let io = |what: &str, err: std::io::Error| Fail::new(format!("{P} cond-error call={what}"), format!("{what} with condition {} failed: {err}", e.show()));
    let verdict = |what: &str, matched: Vec<bool>| -> Check {
        for (i, w) in want.iter().enumerate() {
            if let Some(w) = w {
                if *w != matched[i] {
                    return Err(Fail::new(
                        format!("{P} cond-wrong call={what} op={}", root_name(e)),
                        format!("{what} WHERE {}: row k={} {} but the reference says it {}", e.show(), i + 1, if matched[i] { "matched" } else { "did not match" }, if *w { "matches" } else { "does not match" }),
                    ));
                }
            }
        }
        Ok(())
    };
    // select
    let mut pkg = cond_pkg();
    let keys: Vec<i32> = {
        let rows = crate::engine::catch(|| pkg.select_rows(Select::table("T").with(build(e))).map(|rows| rows.map(|r| r[0].as_int().unwrap_or(0)).collect::<Vec<i32>>()))
            .map_err(|(loc, msg)| Fail::new(format!("{P} panic at={loc}"), format!("select WHERE {} panicked: {msg}", e.show())))?;
        rows.map_err(|err| io("select", err))?
    };
    verdict("select", (1..=6).map(|k| keys.contains(&k)).collect())?;
    // the same condition as ON clause and as filter of a 36-column join
    if e.has_column() {
        let q = qualify(e);
        for (what, sel) in [
            ("join-on", Select::table("P").inner_join(Select::table("T"), build(&q))),
            ("join-filter", Select::table("P").inner_join(Select::table("T"), msi::Expr::boolean(true)).with(build(&q))),
        ] {
            let keys: Vec<i32> = {
                let rows = crate::engine::catch(|| pkg.select_rows(sel).map(|rows| rows.map(|r| r[31].as_int().unwrap_or(0)).collect::<Vec<i32>>()))
                    .map_err(|(loc, msg)| Fail::new(format!("{P} panic at={loc}"), format!("{what} with condition {} panicked: {msg}", q.show())))?;
                rows.map_err(|err| io(what, err))?
            };
            verdict(what, (1..=6).map(|k| keys.contains(&k)).collect())?;
        }
    }
    // the same condition as outer filter of a left join whose ON clause
    // matches T rows 4..6 only: the filter sees joined rows, never a
    // null-padded row that the join itself did not produce
    if e.has_column() && want.iter().all(|w| w.is_some()) {
        let q = qualify(e);
        let on = msi::Expr::col("T.k").gt(msi::Expr::integer(3));
        let sel = Select::table("P").left_join(Select::table("T"), on).with(build(&q));
        let got: Vec<Option<i32>> = crate::engine::catch(|| pkg.select_rows(sel).map(|rows| rows.map(|r| r[31].as_int()).collect::<Vec<Option<i32>>>()))
            .map_err(|(loc, msg)| Fail::new(format!("{P} panic at={loc}"), format!("left-join-filter with condition {} panicked: {msg}", q.show())))?
            .map_err(|err| io("left-join-filter", err))?;
        let expect: Vec<Option<i32>> = (4..=6).filter(|k| want[*k as usize - 1] == Some(true)).map(Some).collect();
        if got != expect {
            return Err(Fail::new(
                format!("{P} cond-wrong call=left-join-filter op={}", root_name(e)),
                format!("(P LEFT JOIN T ON T.k > 3) WHERE {}: rows with T.k = {got:?}, expected {expect:?}", q.show()),
            ));
        }
    }
    // update: mark matching rows
    crate::engine::catch(|| pkg.update_rows(Update::table("T").set("m", Value::Int(7)).with(build(e))))
        .map_err(|(loc, msg)| Fail::new(format!("{P} panic at={loc}"), format!("update WHERE {} panicked: {msg}", e.show())))?
        .map_err(|err| io("update", err))?;
    let marked: Vec<bool> = pkg
        .select_rows(Select::table("T"))
        .map_err(|err| io("select-after-update", err))?
        .map(|r| r[4] == Value::Int(7))
        .collect();
    if marked.len() != 6 {
        return Err(Fail::new(format!("{P} cond-wrong call=update"), format!("update WHERE {} changed the number of rows to {}", e.show(), marked.len())));
    }
    verdict("update", marked)?;
    // delete
    crate::engine::catch(|| pkg.delete_rows(Delete::from("T").with(build(e))))
        .map_err(|(loc, msg)| Fail::new(format!("{P} panic at={loc}"), format!("delete WHERE {} panicked: {msg}", e.show())))?
        .map_err(|err| io("delete", err))?;
    let left: Vec<i32> = pkg
        .select_rows(Select::table("T"))
        .map_err(|err| io("select-after-delete", err))?
        .map(|r| r[0].as_int().unwrap_or(0))
        .collect();
    verdict("delete", (1..=6).map(|k| !left.contains(&k)).collect())
}

/// A condition over columns of both sides (`P.pN`, `T.c`) as ON clause of an
/// inner and of a left join of the pad table with T.
pub fn check_cross(e: &E) -> Check {
    let pad_value = |name: &str| -> V {
        let i: i32 = name.trim_start_matches("P.p").parse().unwrap_or(0);
        if i == 0 {
            V::Int(1)
        } else if i % 3 == 0 {
            V::Null
        } else {
            V::Int(i)
        }
    };
    let want: Vec<Option<bool>> = cond_rows()
        .iter()
        .map(|r| {
            let lookup = |c: &str| -> V {
                if c.starts_with("P.") {
                    return pad_value(c);
                }
                let i = COND_COLS.iter().position(|x| *x == c.trim_start_matches("T.")).expect("known column");
                r[i].clone()
            };
            let t: Vec<bool> = eval_ref(e, &lookup).iter().map(|v| v.truthy()).collect();
            if t.iter().all(|x| *x) {
                Some(true)
            } else if t.iter().all(|x| !*x) {
                Some(false)
            } else {
                None
            }
        })
        .collect();
    let mut pkg = cond_pkg();
    for left in [false, true] {
        let what = if left { "left-join-on" } else { "inner-join-on" };
        let sel = if left { Select::table("P").left_join(Select::table("T"), build(e)) } else { Select::table("P").inner_join(Select::table("T"), build(e)) };
        let keys: Vec<Option<i32>> = crate::engine::catch(|| pkg.select_rows(sel).map(|rows| rows.map(|r| r[31].as_int()).collect::<Vec<Option<i32>>>()))
            .map_err(|(loc, msg)| Fail::new(format!("{P} panic at={loc}"), format!("{what} {} panicked: {msg}", e.show())))?
            .map_err(|err| Fail::new(format!("{P} cond-error call={what}"), format!("{what} {} failed: {err}", e.show())))?;
        for (i, w) in want.iter().enumerate() {
            let matched = keys.contains(&Some(i as i32 + 1));
            if let Some(w) = w {
                if *w != matched {
                    return Err(Fail::new(
                        format!("{P} cond-wrong call={what} op={}", root_name(e)),
                        format!("P {what} T ON {}: the pair with T row k={} {} but the reference says it {}", e.show(), i + 1, if matched { "is joined" } else { "is not joined" }, if *w { "matches" } else { "does not match" }),
                    ));
                }
            }
        }
        if left && want.iter().all(|w| *w == Some(false)) && keys != vec![None] {
            return Err(Fail::new(format!("{P} cond-wrong call={what} op={}", root_name(e)), format!("P left join T ON {}: no pair matches, so exactly one null-padded row is due; got T keys {keys:?}", e.show())));
        }
    }
    Ok(())
}

/// Conditions on a table with a two-column key whose second key column is
/// not sorted within the table (rows are in (k1, k2) order): select, update
/// and delete by one column compared with a literal, either operand order.
pub fn check_composite(case: &(u8, u8, u8)) -> Check {
    let (col, lit, swap) = *case;
    let names = ["k1", "k2", "v"];
    let cname = names[col as usize % 3];
    let data: Vec<[i32; 3]> = vec![[1, 1, 5], [1, 2, 0], [1, 3, 1], [2, 1, 1], [2, 2, 2], [2, 3, 0], [3, 1, 3], [3, 2, 1], [3, 3, 2]];
    let lit = (lit % 4) as i32;
    let e = if swap % 2 == 0 { E::bin(Bin::Eq, E::Col(cname.into()), E::Lit(V::Int(lit))) } else { E::bin(Bin::Eq, E::Lit(V::Int(lit)), E::Col(cname.into())) };
    let matches: Vec<bool> = data.iter().map(|r| r[col as usize % 3] == lit).collect();
    let fresh = || -> Result<Package<Cursor<Vec<u8>>>, Fail> {
        let mut pkg = Package::create(PackageType::Installer, Cursor::new(Vec::new())).map_err(|x| Fail::new(format!("{P} unexpected-error op=Create"), x.to_string()))?;
        pkg.create_table("C", vec![Column::build("k1").primary_key().int16(), Column::build("k2").primary_key().int16(), Column::build("v").nullable().int16()]).map_err(|x| Fail::new(format!("{P} unexpected-error op=CreateTable"), x.to_string()))?;
        pkg.insert_rows(Insert::into("C").rows(data.iter().map(|r| r.iter().map(|x| Value::Int(*x)).collect()).collect())).map_err(|x| Fail::new(format!("{P} unexpected-error op=Insert"), x.to_string()))?;
        Ok(pkg)
    };
    let rows_of = |pkg: &mut Package<Cursor<Vec<u8>>>| -> Result<Vec<[i32; 3]>, Fail> {
        Ok(pkg
            .select_rows(Select::table("C"))
            .map_err(|x| Fail::new(format!("{P} cond-error call=select-after"), x.to_string()))?
            .map(|r| [r[0].as_int().unwrap_or(i32::MIN), r[1].as_int().unwrap_or(i32::MIN), r[2].as_int().unwrap_or(i32::MIN)])
            .collect())
    };
    // select
    let mut pkg = fresh()?;
    let got: Vec<[i32; 3]> = pkg.select_rows(Select::table("C").with(build(&e))).map_err(|x| Fail::new(format!("{P} cond-error call=select"), x.to_string()))?.map(|r| [r[0].as_int().unwrap_or(0), r[1].as_int().unwrap_or(0), r[2].as_int().unwrap_or(0)]).collect();
    let want: Vec<[i32; 3]> = data.iter().zip(matches.iter()).filter(|(_, m)| **m).map(|(r, _)| *r).collect();
    if got != want {
        return Err(Fail::new(format!("{P} cond-wrong call=select-composite"), format!("select from C (key k1, k2) WHERE {}: got {got:?}, expected {want:?}", e.show())));
    }
    // delete
    pkg.delete_rows(Delete::from("C").with(build(&e))).map_err(|x| Fail::new(format!("{P} cond-error call=delete"), x.to_string()))?;
    let left = rows_of(&mut pkg)?;
    let want: Vec<[i32; 3]> = data.iter().zip(matches.iter()).filter(|(_, m)| !**m).map(|(r, _)| *r).collect();
    if left != want {
        return Err(Fail::new(format!("{P} cond-wrong call=delete-composite"), format!("delete from C (key k1, k2) WHERE {}: rows left {left:?}, expected {want:?}", e.show())));
    }
    // update of the non-key column
    let mut pkg = fresh()?;
    pkg.update_rows(Update::table("C").set("v", Value::Int(9)).with(build(&e))).map_err(|x| Fail::new(format!("{P} cond-error call=update"), x.to_string()))?;
    let now = rows_of(&mut pkg)?;
    let want: Vec<[i32; 3]> = data.iter().zip(matches.iter()).map(|(r, m)| if *m { [r[0], r[1], 9] } else { *r }).collect();
    if now != want {
        return Err(Fail::new(format!("{P} cond-wrong call=update-composite"), format!("update C set v = 9 WHERE {}: rows {now:?}, expected {want:?}", e.show())));
    }
    Ok(())
}

fn cross_conditions() -> Vec<E> {
    let mut out = Vec::new();
    for p in ["P.p0", "P.p1", "P.p2", "P.p3", "P.p6"] {
        for c in ["T.k", "T.a", "T.b", "T.s"] {
            for op in [Bin::Eq, Bin::Ne, Bin::Lt, Bin::Le, Bin::Gt, Bin::Ge, Bin::And, Bin::Or] {
                out.push(E::bin(op, E::Col(p.to_string()), E::Col(c.to_string())));
                out.push(E::bin(op, E::Col(c.to_string()), E::Col(p.to_string())));
            }
        }
    }
    out
}

// ------------------------------------------------------------------------- //
// Generators.

fn leaf_strategy(cols: &'static [&'static str]) -> impl Strategy<Value = E> {
    let lits = literal_leaves();
    prop_oneof![
        3 => prop::sample::select(lits).prop_map(E::Lit),
        3 => prop::sample::select(cols.to_vec()).prop_map(|c| E::Col(c.to_string())),
        1 => any::<i32>().prop_map(|i| E::Lit(V::Int(i))),
        1 => (-40i32..40).prop_map(|i| E::Lit(V::Int(i))),
        1 => "[ab]{0,3}".prop_map(|s| E::Lit(V::Str(s))),
    ]
}

pub fn tree_strategy(cols: &'static [&'static str], depth: u32) -> impl Strategy<Value = E> {
    leaf_strategy(cols).prop_recursive(depth, 48, 2, |inner| {
        prop_oneof![
            1 => (prop::sample::select(ALL_UN.to_vec()), inner.clone()).prop_map(|(op, a)| E::un(op, a)),
            4 => (prop::sample::select(ALL_BIN.to_vec()), inner.clone(), inner).prop_map(|(op, a, b)| E::bin(op, a, b)),
        ]
    })
}

const ROW_COLS: &[&str] = &["K", "cN", "c0", "c1", "cm1", "c2", "c31", "c32", "cMax", "cMinP", "sE", "sa", "sb"];
const COND_COL_NAMES: &[&str] = &["k", "a", "b", "s"];

fn all_leaves() -> Vec<E> {
    let mut leaves: Vec<E> = literal_leaves().into_iter().map(E::Lit).collect();
    for (name, _) in row_columns() {
        if name != "K" {
            leaves.push(E::Col(name.to_string()));
        }
    }
    leaves
}

fn depth1_trees(leaves: &[E]) -> Vec<E> {
    let mut out = Vec::new();
    for op in ALL_UN {
        for a in leaves {
            out.push(E::un(op, a.clone()));
        }
    }
    for op in ALL_BIN {
        for a in leaves {
            for b in leaves {
                out.push(E::bin(op, a.clone(), b.clone()));
            }
        }
    }
    out
}

pub fn run(ctx: &Ctx) -> Report {
    let mut rep = Report::new(
        "exploration",
        "all expression trees of depth <= 1 over the 18 operators and the leaf set {null,0,1,-1,2,31,32,i32::MIN,i32::MAX,'','a','b'} as literals and as columns holding the storable ones (exhaustive); depth-2 trees op(depth-1, leaf) / op(leaf, depth-1) / unary(depth-1) over a reduced leaf set (exhaustive; the full depth-2 square over 8 leaves in thorough); proptest-generated trees to depth 5; each evaluated through Expr::eval on a row (column form and literal form) and, for generated trees, through select / update / delete conditions on a real package. Non-trivial = a tree that contains an overflow / shift / division edge, a wrong-typed operand or a cross-type comparison; distinct by the tree.",
    );
    rep.assumptions.push("where the documentation leaves a result open (overflow: wrapped value or null; shift count outside 0..31; order of values of different types; null vs '') the oracle accepts every conventional answer".into());
    let mut st = Stats::new();
    let row_lookup = |c: &str| -> V { row_columns().into_iter().find(|(n, _)| *n == c).map(|(_, v)| v).unwrap_or(V::Null) };

    let record = |e: &E, st: &mut Stats| {
        st.eval();
        if is_edgy(e, &row_lookup) {
            st.nontrivial(e);
            st.class("edge");
            if st.wants_sample() && st.classes["edge"] % 37 == 1 {
                st.sample(json!({"tree": e.show()}));
            }
        } else {
            st.class("plain");
        }
    };

    // 1. depth <= 1, exhaustive
    let leaves = all_leaves();
    let mut trees: Vec<E> = leaves.clone();
    trees.extend(depth1_trees(&leaves));
    let v = par_enumerate(ctx, "tree", &trees, |e, st| {
        record(e, st);
        check_tree(e)
    }, &mut st);
    rep.push(v);
    st.class_n("depth<=1 trees (exhaustive)", trees.len() as u64);

    // 2. depth 2 over a reduced leaf set
    let reduced: Vec<E> = vec![
        E::Lit(V::Null), E::Lit(V::Int(0)), E::Lit(V::Int(-1)), E::Lit(V::Int(32)), E::Lit(V::Int(i32::MIN)),
        E::Lit(V::Int(i32::MAX)), E::Lit(V::Str("a".into())), E::Col("c1".into()), E::Col("cMax".into()), E::Col("sa".into()),
        // a second string, as literal and as column: chains such as 'a' + sb + 'a' must keep their operand order
        E::Lit(V::Str("b".into())), E::Col("sb".into()),
    ];
    let d1 = depth1_trees(&reduced);
    let mut d2: Vec<E> = Vec::new();
    for op in ALL_UN {
        for a in &d1 {
            d2.push(E::un(op, a.clone()));
        }
    }
    for op in ALL_BIN {
        for a in &d1 {
            for l in &reduced {
                d2.push(E::bin(op, a.clone(), l.clone()));
                d2.push(E::bin(op, l.clone(), a.clone()));
            }
        }
    }
    let v = par_enumerate(ctx, "tree", &d2, |e, st| {
        record(e, st);
        check_tree(e)
    }, &mut st);
    rep.push(v);
    st.class_n("depth-2 trees with one leaf side (exhaustive)", d2.len() as u64);

    if ctx.tier == crate::engine::Tier::Thorough {
        let small: Vec<E> = reduced[..8].to_vec();
        let d1s = depth1_trees(&small);
        // enumerate the square lazily per (op, left) block
        let blocks: Vec<(Bin, usize)> = ALL_BIN.iter().flat_map(|op| (0..d1s.len()).map(move |i| (*op, i))).collect();
        let v = par_enumerate(ctx, "tree-block", &blocks, |&(op, i), st| {
            for b in &d1s {
                let e = E::bin(op, d1s[i].clone(), b.clone());
                st.eval();
                if is_edgy(&e, &row_lookup) {
                    st.nontrivial(&e);
                }
                check_tree(&e)?;
            }
            Ok(())
        }, &mut st);
        if let Some(mut v) = v {
            // recover the single tree from the detail-less block: re-scan
            if let (Some(opj), Some(i)) = (v.case["case"].get(0).cloned(), v.case["case"][1].as_u64()) {
                if let Ok(op) = serde_json::from_value::<Bin>(opj) {
                    for b in &d1s {
                        let e = E::bin(op, d1s[i as usize].clone(), b.clone());
                        if check_tree(&e).is_err() {
                            v.case = json!({"kind": "tree", "case": e});
                            break;
                        }
                    }
                }
            }
            rep.violations.push(v);
        }
    }

    // 3. generated deeper trees through Expr::eval
    let v = search(ctx, "tree", ctx.tier.pick(2_000_000, 20_000_000), || tree_strategy(ROW_COLS, 5), |e: &E, st| {
        record(e, st);
        st.class(&format!("depth{}", e.depth().min(5)));
        check_tree(e)
    }, &mut st);
    rep.push(v);

    // 4. generated trees as select / update / delete conditions
    let v = search(ctx, "cond", ctx.tier.pick(30_000, 300_000), || tree_strategy(COND_COL_NAMES, 4), |e: &E, st| {
        st.eval();
        st.class("cond");
        let want = expected_matches(e);
        if want.iter().any(|w| *w == Some(true)) && want.iter().any(|w| *w == Some(false)) {
            st.nontrivial(&("cond", e));
            st.class("cond:splits-rows");
        }
        check_cond(e)
    }, &mut st);
    rep.push(v);

    // 5. conditions over columns of both sides of a join (nulls on both sides)
    let cross = cross_conditions();
    let v = par_enumerate(ctx, "cross", &cross, |e, st| {
        st.eval();
        st.class("cross-join-condition");
        st.nontrivial(&("cross", e));
        check_cross(e)
    }, &mut st);
    rep.push(v);

    // 6. one column = literal on a table with a composite key
    let mut comp: Vec<(u8, u8, u8)> = Vec::new();
    for c in 0..3u8 {
        for l in 0..4u8 {
            for sw in 0..2u8 {
                comp.push((c, l, sw));
            }
        }
    }
    let v = par_enumerate(ctx, "composite", &comp, |c, st| {
        st.eval();
        st.class("composite-key-condition");
        st.nontrivial(&("composite", *c));
        check_composite(c)
    }, &mut st);
    rep.push(v);

    st.exhaustive = Some(true);
    rep.extra.insert("exhaustive_over".into(), json!("all trees of depth <= 1 over 18 operators x 24 leaves; depth-2 trees with one leaf side over 12 leaves"));
    rep.stats = st;
    rep
}

pub fn replay(_ctx: &Ctx, doc: &J) -> Check {
    let kind = doc["kind"].as_str().unwrap_or("");
    if kind == "composite" {
        return check_composite(&serde_json::from_value(doc["case"].clone()).map_err(|e| Fail::new(format!("{P} bad-replay"), e.to_string()))?);
    }
    let e: E = serde_json::from_value(doc["case"].clone()).map_err(|e| Fail::new(format!("{P} bad-replay"), e.to_string()))?;
    match kind {
        "tree" => check_tree(&e),
        "cond" => check_cond(&e),
        "cross" => check_cross(&e),
        _ => Err(Fail::new(format!("{P} bad-replay"), format!("unknown case kind {kind:?}"))),
    }
}

#[allow(dead_code)]
fn _unused(_: Un) {}
