//! C10 — summary information survives saving, in every code page.

use crate::cpref::{self, Page, PAGES};
use crate::engine::{search, Check, Ctx, Fail, Report, Stats};
use crate::fmt::{self, PVal};
use crate::media::SharedBuf;
use crate::observe::{observe_summary, ticks_of};
use crate::seq::pick;
use msi::{Language, Package, PackageType};
use proptest::prelude::*;
use serde::{Deserialize, Serialize};
use serde_json::{json, Value as J};
use std::time::{Duration, SystemTime, UNIX_EPOCH};

const P: &str = "C10";

#[derive(Clone, Debug, Serialize, Deserialize, Hash, PartialEq, Eq)]
pub struct StrSeed {
    /// selectors into the current page's repertoire
    pub chars: Vec<u16>,
    /// append a character the current page cannot represent
    pub unrepresentable: bool,
}

#[derive(Clone, Debug, Serialize, Deserialize, Hash, PartialEq, Eq)]
pub enum SOp {
    /// 0 title, 1 subject, 2 author, 3 comments, 4 creating application
    SetStr(u8, StrSeed),
    /// 0..=4 as above, 5 uuid, 6 word count, 7 creation time, 8 arch, 9 languages
    Clear(u8),
    SetUuid(u64, u64),
    SetWordCount(i32),
    /// signed offset from the Unix epoch
    SetTime(i64, u32),
    SetArch(u8),
    SetLangs(Vec<u16>),
    Codepage(u16),
    Reopen(u8),
    /// save with flush() and keep working on the same package object
    Flush,
}

#[derive(Clone, Debug, Serialize, Deserialize, Hash, PartialEq, Eq)]
pub struct SCase {
    pub ops: Vec<SOp>,
}

#[derive(Clone, Debug, Default, PartialEq)]
struct M {
    codepage: i32,
    strs: [Option<String>; 5],
    /// the property holds characters its code page cannot represent
    lossy: [bool; 5],
    uuid: Option<uuid::Uuid>,
    word_count: Option<i32>,
    ctime: Option<u64>,
    template: Option<String>,
}

const STR_IDS: [u32; 5] = [2, 3, 4, 6, 18];
const STR_NAMES: [&str; 5] = ["title", "subject", "author", "comments", "creating_application"];

fn page_of(m: &M) -> &'static Page {
    cpref::page_by_id(m.codepage).expect("known page")
}

fn resolve_str(seed: &StrSeed, page: &Page) -> String {
    // (U+0000 included: the strings are length-prefixed, a NUL is a character
    // like any other, also in the last position)
    let rep: Vec<char> = cpref::repertoire(page);
    let mut s = String::new();
    // every 8th string starts like a byte-order mark in its encoded form
    if seed.chars.first().map(|c| c % 8 == 3).unwrap_or(false) {
        let boms = cpref::bom_lookalikes(page);
        if !boms.is_empty() {
            s.push_str(&boms[(seed.chars[0] as usize / 8) % boms.len()]);
        }
    }
    for sel in &seed.chars {
        s.push(rep[pick(*sel, rep.len())]);
    }
    // every 16th string is long: the same characters repeated up to 1000..4500
    // characters, so that multi-byte characters fall on every kind of block
    // boundary of a reader or writer that works in blocks
    if !s.is_empty() && seed.chars.first().map(|c| c % 16 == 7).unwrap_or(false) {
        let target = 1000 + (seed.chars[0] as usize / 16 % 8) * 500;
        let pattern = s.clone();
        let per = pattern.chars().count();
        let mut n = per;
        while n < target {
            s.push_str(&pattern);
            n += per;
        }
    }
    // a class of strings that end in, start with or consist of NULs
    match seed.chars.first().map(|c| c % 32) {
        Some(19) => s.push('\0'),
        Some(20) => s.insert(0, '\0'),
        Some(21) => s = "\0".to_string(),
        _ => {}
    }
    if seed.unrepresentable {
        for c in ['中', 'é', '😀', '\u{80}'] {
            if !page.representable(c) {
                s.push(c);
                break;
            }
        }
    }
    s
}

fn getters(pkg: &Package<SharedBuf>) -> ([Option<String>; 5], crate::model::MSummary) {
    let s = pkg.summary_info();
    let ms = observe_summary(s);
    ([ms.title.clone(), ms.subject.clone(), ms.author.clone(), ms.comments.clone(), ms.app.clone()], ms)
}

fn arch_of(t: &Option<String>) -> Option<String> {
    let t = t.as_ref()?;
    let a = t.split(';').next().unwrap_or("");
    if a.is_empty() {
        None
    } else {
        Some(a.to_string())
    }
}

fn langs_of(t: &Option<String>) -> Vec<u16> {
    match t {
        Some(t) => match t.split_once(';') {
            Some((_, l)) => l.split(',').filter_map(|c| c.parse::<u16>().ok()).collect(),
            None => vec![],
        },
        None => vec![],
    }
}

/// (a) the getters agree with the model.
fn check_getters(pkg: &Package<SharedBuf>, m: &M, when: &str, after_reopen: bool, trace: &str) -> Check {
    let (strs, ms) = getters(pkg);
    let bad = |what: &str, got: String, want: String| Fail::new(format!("{P} getter-differs prop={what} when={when}"), format!("{what}: got {got}, expected {want}; history: {trace}"));
    if ms.codepage != m.codepage {
        return Err(bad("codepage", ms.codepage.to_string(), m.codepage.to_string()));
    }
    for i in 0..5 {
        if after_reopen && m.lossy[i] {
            // C14: a character the page cannot represent is stored as the single byte '?'
            let want = match m.strs[i].as_ref().map(|s| substituted(s, page_of(m))) {
                Some(None) => continue,
                Some(Some(w)) => Some(w),
                None => None,
            };
            if strs[i] != want {
                return Err(bad(STR_NAMES[i], format!("{:?}", strs[i]), format!("{want:?} (as set: {:?}; the characters code page {} cannot represent read back as '?')", m.strs[i], m.codepage)));
            }
            continue;
        }
        if strs[i] != m.strs[i] {
            return Err(bad(STR_NAMES[i], format!("{:?}", strs[i]), format!("{:?}", m.strs[i])));
        }
    }
    let uuid = pkg.summary_info().uuid();
    if uuid != m.uuid {
        return Err(bad("uuid", format!("{uuid:?}"), format!("{:?}", m.uuid)));
    }
    if ms.word_count != m.word_count {
        return Err(bad("word_count", format!("{:?}", ms.word_count), format!("{:?}", m.word_count)));
    }
    if ms.ctime_ticks != m.ctime {
        return Err(bad("creation_time", format!("{:?}", ms.ctime_ticks), format!("{:?}", m.ctime)));
    }
    if ms.arch != arch_of(&m.template) {
        return Err(bad("arch", format!("{:?}", ms.arch), format!("{:?}", arch_of(&m.template))));
    }
    if ms.langs != langs_of(&m.template) {
        return Err(bad("languages", format!("{:?}", ms.langs), format!("{:?}", langs_of(&m.template))));
    }
    Ok(())
}

/// (b) the saved stream is a well-formed property set that an independent
/// parser reads to the same values.
/// What a string reads back as once it has been stored in `page`: each
/// character the page cannot represent has become '?' (C14).
/// `None` when the string holds one of the characters for which the reference
/// encoder itself has a best-fit mapping instead of '?' (YEN SIGN under 932 and
/// the like): those pairs are C14's known findings, not C10's to judge.
fn substituted(s: &str, page: &Page) -> Option<String> {
    let mut out = String::new();
    for c in s.chars() {
        if page.representable(c) {
            out.push(c);
        } else {
            let mut tmp = [0u8; 4];
            if page.encode(c.encode_utf8(&mut tmp)) != b"?" {
                return None;
            }
            out.push('?');
        }
    }
    Some(out)
}

fn check_stream(bytes: &[u8], m: &M, trace: &str) -> Check {
    let d = fmt::decode(bytes).map_err(|e| Fail::new(format!("{P} file-undecodable"), format!("{e}; history: {trace}")))?;
    let raw = d.raw_streams.get(fmt::SUMMARY_STREAM).ok_or_else(|| Fail::new(format!("{P} no-summary-stream"), format!("history: {trace}")))?;
    let ps = fmt::parse_propset(raw, true).map_err(|e| Fail::new(format!("{P} stream-malformed"), format!("the saved summary stream is not a well-formed property set: {e}; history: {trace}")))?;
    if ps.fmtid != fmt::SUMMARY_FMTID {
        return Err(Fail::new(format!("{P} stream-malformed"), format!("wrong FMTID; history: {trace}")));
    }
    let bad = |id: u32, got: String, want: String| Fail::new(format!("{P} stream-value-differs id={id}"), format!("property {id} in the saved stream is {got}, expected {want}; history: {trace}"));
    // code page: the id as an unsigned 16-bit number
    match ps.get(1) {
        Some(PVal::I2(v)) if (*v as u16) as i32 == m.codepage => {}
        other => return Err(bad(1, format!("{other:?}"), format!("I2({})", m.codepage as u16 as i16))),
    }
    let page = page_of(m);
    for i in 0..5 {
        let got = ps.get(STR_IDS[i]);
        match (&m.strs[i], got) {
            (None, None) => {}
            (Some(want), Some(PVal::LpStr(b))) => {
                let want = if m.lossy[i] {
                    match substituted(want, page) {
                        Some(w) => w,
                        None => continue,
                    }
                } else {
                    want.clone()
                };
                if page.decode(b) != want {
                    return Err(bad(STR_IDS[i], format!("{:?} = {:02X?}", page.decode(b), b), format!("{want:?} in code page {}", m.codepage)));
                }
            }
            (w, g) => return Err(bad(STR_IDS[i], format!("{g:?}"), format!("{w:?}"))),
        }
    }
    match (&m.uuid, ps.get(9)) {
        (None, None) => {}
        (Some(u), Some(PVal::LpStr(b))) => {
            let want = format!("{{{}}}", u.hyphenated().to_string().to_uppercase());
            if page.decode(b) != want {
                return Err(bad(9, format!("{:?}", page.decode(b)), want));
            }
        }
        (w, g) => return Err(bad(9, format!("{g:?}"), format!("{w:?}"))),
    }
    match (&m.word_count, ps.get(15)) {
        (None, None) => {}
        (Some(w), Some(PVal::I4(g))) if w == g => {}
        (w, g) => return Err(bad(15, format!("{g:?}"), format!("{w:?}"))),
    }
    match (&m.ctime, ps.get(12)) {
        (None, None) => {}
        (Some(w), Some(PVal::FileTime(g))) if w == g => {}
        (w, g) => return Err(bad(12, format!("{g:?}"), format!("{w:?}"))),
    }
    match (&m.template, ps.get(7)) {
        (None, None) => {}
        (Some(w), Some(PVal::LpStr(b))) if page.decode(b) == *w => {}
        (w, g) => return Err(bad(7, format!("{g:?}"), format!("{w:?}"))),
    }
    // nothing else
    for (id, _, _) in &ps.props {
        if ![1u32, 2, 3, 4, 6, 7, 9, 12, 15, 18].contains(id) {
            return Err(bad(*id, "present".into(), "absent".into()));
        }
    }
    Ok(())
}

fn system_time(secs: i64, nanos: u32) -> Option<SystemTime> {
    if secs >= 0 {
        UNIX_EPOCH.checked_add(Duration::new(secs as u64, nanos))
    } else {
        UNIX_EPOCH.checked_sub(Duration::new(secs.unsigned_abs(), 0))?.checked_add(Duration::new(0, nanos))
    }
}

pub fn check_case(case: &SCase, st: &mut Stats) -> Check {
    let mut buf = SharedBuf::new(Vec::new());
    let mut pkg = Package::create(PackageType::Installer, buf.clone()).map_err(|e| Fail::new(format!("{P} unexpected-error op=Create"), e.to_string()))?;
    let mut m = M { codepage: 65001, ..M::default() };
    m.strs[0] = Some("Installation Database".to_string());
    let mut trace: Vec<String> = Vec::new();
    let mut switched = false;
    let mut mismatch_len = false;
    let mut n_strings = 0;
    let ops_with_final: Vec<SOp> = case.ops.iter().cloned().chain(std::iter::once(SOp::Reopen(1))).collect();
    for op in &ops_with_final {
        match op {
            SOp::SetStr(which, seed) => {
                let i = (*which % 5) as usize;
                let page = page_of(&m);
                let s = resolve_str(seed, page);
                trace.push(format!("set_{}({s:?})", STR_NAMES[i]));
                let enc_len = page.encode(&s).len();
                if s.len() % 4 != enc_len % 4 {
                    mismatch_len = true;
                }
                n_strings += 1;
                let info = pkg.summary_info_mut();
                match i {
                    0 => info.set_title(s.clone()),
                    1 => info.set_subject(s.clone()),
                    2 => info.set_author(s.clone()),
                    3 => info.set_comments(s.clone()),
                    _ => info.set_creating_application(s.clone()),
                }
                m.lossy[i] = s.chars().any(|c| !page.representable(c));
                if m.lossy[i] {
                    st.class("unrepresentable-string");
                }
                m.strs[i] = Some(s);
            }
            SOp::Clear(which) => {
                let w = which % 10;
                trace.push(format!("clear({w})"));
                let info = pkg.summary_info_mut();
                match w {
                    0 => info.clear_title(),
                    1 => info.clear_subject(),
                    2 => info.clear_author(),
                    3 => info.clear_comments(),
                    4 => info.clear_creating_application(),
                    5 => info.clear_uuid(),
                    6 => info.clear_word_count(),
                    7 => info.clear_creation_time(),
                    8 => info.clear_arch(),
                    _ => info.clear_languages(),
                }
                match w {
                    0..=4 => {
                        m.strs[w as usize] = None;
                        m.lossy[w as usize] = false;
                    }
                    5 => m.uuid = None,
                    6 => m.word_count = None,
                    7 => m.ctime = None,
                    8 => {
                        // documented: clears the architecture part of the template
                        let langs = m.template.as_ref().and_then(|t| t.split_once(';').map(|x| x.1.to_string())).unwrap_or_default();
                        m.template = Some(format!(";{langs}"));
                    }
                    _ => {
                        let arch = m.template.as_ref().map(|t| t.split(';').next().unwrap_or("").to_string()).unwrap_or_default();
                        m.template = Some(format!("{arch};"));
                    }
                }
            }
            SOp::SetUuid(a, b) => {
                let u = uuid::Uuid::from_u64_pair(*a, *b);
                trace.push(format!("set_uuid({u})"));
                pkg.summary_info_mut().set_uuid(u);
                m.uuid = Some(u);
            }
            SOp::SetWordCount(n) => {
                trace.push(format!("set_word_count({n})"));
                pkg.summary_info_mut().set_word_count(*n);
                m.word_count = Some(*n);
            }
            SOp::SetTime(secs, nanos) => {
                let Some(t) = system_time(*secs, *nanos) else { continue };
                trace.push(format!("set_creation_time({secs}s+{nanos}ns)"));
                pkg.summary_info_mut().set_creation_time(t);
                let got = pkg.summary_info().creation_time().ok_or_else(|| Fail::new(format!("{P} getter-differs prop=creation_time when=immediately"), "None right after set".to_string()))?;
                let ticks = ticks_of(got).clamp(0, u64::MAX as i128) as u64;
                // to the format's resolution (C18 examines the conversion itself)
                let ns = *secs as i128 * 1_000_000_000 + *nanos as i128;
                let want_ns = (ns + 11_644_473_600i128 * 1_000_000_000).clamp(0, u64::MAX as i128 * 100);
                if (ticks as i128 * 100 - want_ns).abs() >= 100 {
                    return Err(Fail::new(format!("{P} getter-differs prop=creation_time when=immediately"), format!("set {secs}s+{nanos}ns, read back tick {ticks}; history: {}", trace.join("; "))));
                }
                m.ctime = Some(ticks);
            }
            SOp::SetArch(sel) => {
                let a = ["x64", "Intel", "Arm64", "Intel64", "x"][(*sel % 5) as usize];
                trace.push(format!("set_arch({a})"));
                pkg.summary_info_mut().set_arch(a);
                let langs = m.template.as_ref().and_then(|t| t.split_once(';').map(|x| x.1.to_string())).unwrap_or_default();
                m.template = Some(format!("{a};{langs}"));
            }
            SOp::SetLangs(codes) => {
                trace.push(format!("set_languages({codes:?})"));
                let langs: Vec<Language> = codes.iter().map(|c| Language::from_code(*c)).collect();
                pkg.summary_info_mut().set_languages(&langs);
                let arch = m.template.as_ref().map(|t| t.split(';').next().unwrap_or("").to_string()).unwrap_or_default();
                m.template = Some(format!("{arch};{}", codes.iter().map(|c| c.to_string()).collect::<Vec<_>>().join(",")));
            }
            SOp::Codepage(sel) => {
                let page = &PAGES[pick(*sel, PAGES.len())];
                trace.push(format!("set_codepage({})", page.id));
                pkg.summary_info_mut().set_codepage(page.cp);
                if page.id != m.codepage {
                    switched = true;
                }
                m.codepage = page.id;
                for i in 0..5 {
                    if let Some(s) = &m.strs[i] {
                        m.lossy[i] = s.chars().any(|c| !page.representable(c));
                    }
                }
                st.class(&format!("page:{}", page.id));
            }
            SOp::Flush => {
                trace.push("flush (the session goes on)".into());
                let t = trace.join("; ");
                pkg.flush().map_err(|e| Fail::new(format!("{P} unexpected-error op=Flush"), format!("{e}; history: {t}")))?;
                check_stream(&buf.bytes(), &m, &t)?;
                check_getters(&pkg, &m, "after-flush", false, &t)?;
                st.class("flush-and-go-on");
            }
            SOp::Reopen(mode) => {
                trace.push(format!("reopen({})", mode % 3));
                let t = trace.join("; ");
                check_getters(&pkg, &m, "before-close", false, &t)?;
                let bytes = match mode % 3 {
                    0 => {
                        pkg.flush().map_err(|e| Fail::new(format!("{P} unexpected-error op=Flush"), format!("{e}; history: {t}")))?;
                        let b = buf.bytes();
                        drop(pkg);
                        b
                    }
                    1 => pkg.into_inner().map_err(|e| Fail::new(format!("{P} unexpected-error op=IntoInner"), format!("{e}; history: {t}")))?.bytes(),
                    _ => {
                        drop(pkg);
                        buf.bytes()
                    }
                };
                check_stream(&bytes, &m, &t)?;
                buf = SharedBuf::new(bytes);
                pkg = Package::open(buf.clone()).map_err(|e| Fail::new(format!("{P} reopen-error"), format!("the saved file does not open: {e}; history: {t}")))?;
                check_getters(&pkg, &m, "after-reopen", true, &t)?;
                // lossy strings: from now on the model holds what was read back
                let (strs, _) = getters(&pkg);
                for i in 0..5 {
                    if m.lossy[i] {
                        m.strs[i] = strs[i].clone();
                        m.lossy[i] = false;
                    }
                }
                continue;
            }
        }
        check_getters(&pkg, &m, "immediately", false, &trace.join("; "))?;
    }
    if (n_strings >= 2 && mismatch_len) || switched {
        st.nontrivial(case);
    }
    if mismatch_len {
        st.class("utf8-len%4 != encoded-len%4");
    }
    if switched {
        st.class("codepage-switch");
    }
    Ok(())
}

fn sop() -> impl Strategy<Value = SOp> {
    let str_seed = (prop::collection::vec(any::<u16>(), 0..9), prop::bool::weighted(0.08)).prop_map(|(chars, unrepresentable)| StrSeed { chars, unrepresentable });
    prop_oneof![
        10 => (0u8..5, str_seed).prop_map(|(w, s)| SOp::SetStr(w, s)),
        4 => (0u8..10).prop_map(SOp::Clear),
        1 => (any::<u64>(), any::<u64>()).prop_map(|(a, b)| SOp::SetUuid(a, b)),
        1 => prop_oneof![any::<i32>(), Just(0), Just(i32::MIN), Just(-1)].prop_map(SOp::SetWordCount),
        2 => prop_oneof![
            (-11_644_473_700i64..253_402_300_800i64, 0u32..1_000_000_000).prop_map(|(s, n)| SOp::SetTime(s, n)),
            (any::<i64>(), 0u32..1_000_000_000).prop_map(|(s, n)| SOp::SetTime(s, n)),
            (0u32..10_000_000).prop_map(|t| SOp::SetTime(1_600_000_000, t * 100)),
        ],
        2 => any::<u8>().prop_map(SOp::SetArch),
        2 => prop::collection::vec(prop_oneof![Just(1033u16), Just(0), Just(65535), any::<u16>()], 0..4).prop_map(SOp::SetLangs),
        5 => prop_oneof![3 => any::<u16>(), 1 => Just(u16::MAX)].prop_map(SOp::Codepage),
        3 => any::<u8>().prop_map(SOp::Reopen),
        3 => Just(SOp::Flush),
    ]
}

pub fn run(ctx: &Ctx) -> Report {
    let mut rep = Report::new(
        "exploration",
        "sequences of the ten setters and clearers, code-page switches over all 26 pages in any order (including back to UTF-8), strings of 0..8 characters from the current page's repertoire (every length class modulo 4 in UTF-8 and encoded form, multi-byte characters), one string in 16 repeated up to 1000..4500 characters, plus a class with an unrepresentable character (which must read back as '?' after saving, in the getter and in the independent parser's reading of the stream), architecture and languages in either order, creation times from ordinary, extreme and sub-tick generators; save and reopen at generated points in all three close modes and always at the end. Oracles: (a) getters == model immediately, before closing and after reopening; (b) the raw summary stream parsed by the strict independent property-set parser (aligned in-bounds offsets, typed values, contiguous layout, exact section size, stream length) yields the same values by property id. Non-trivial = at least two strings set with utf8_len%4 != encoded_len%4 somewhere, or a code-page switch; distinct by op list.",
    );
    rep.assumptions.push("a string with characters its code page cannot represent is only required not to panic, to leave the stream well formed and the other properties intact".into());
    let mut st = Stats::new();
    let max_ops = ctx.tier.pick(14, 30);
    let v = search(ctx, "summary", ctx.tier.pick(100_000, 1_000_000), || prop::collection::vec(sop(), 0..max_ops).prop_map(|ops| SCase { ops }), |c: &SCase, st| {
        st.eval();
        if st.wants_sample() && c.ops.len() > 4 && st.evaluations % 31 == 2 {
            st.sample(json!(c));
        }
        check_case(c, st)
    }, &mut st);
    rep.push(v);
    rep.stats = st;
    rep
}

pub fn replay(_ctx: &Ctx, doc: &J) -> Check {
    let mut st = Stats::new();
    match doc["kind"].as_str().unwrap_or("") {
        "summary" => check_case(&serde_json::from_value::<SCase>(doc["case"].clone()).map_err(|e| Fail::new(format!("{P} bad-replay"), e.to_string()))?, &mut st),
        k => Err(Fail::new(format!("{P} bad-replay"), format!("unknown case kind {k:?}"))),
    }
}
