//! C18 — creation times convert to and from Windows timestamps without drift.

use crate::engine::{par_enumerate, search, Check, Ctx, Fail, Report, Stats};
use msi::{Package, PackageType};
use proptest::prelude::*;
use serde::{Deserialize, Serialize};
use serde_json::{json, Value as J};
use std::cell::RefCell;
use std::io::Cursor;
use std::time::{Duration, SystemTime, UNIX_EPOCH};

const P: &str = "C18";

/// Seconds from 1601-01-01 to 1970-01-01.
const EPOCH_1601: i128 = 11_644_473_600;
const NS: i128 = 1_000_000_000;

/// A system time as a signed offset from the Unix epoch.
#[derive(Clone, Copy, Debug, Serialize, Deserialize, PartialEq, Eq, Hash, PartialOrd, Ord)]
pub struct T {
    pub secs: i64,
    pub nanos: u32,
}

impl T {
    fn ns(self) -> i128 {
        self.secs as i128 * NS + self.nanos as i128
    }
    fn from_ns(ns: i128) -> Option<T> {
        let secs = ns.div_euclid(NS);
        let nanos = ns.rem_euclid(NS) as u32;
        if secs < i64::MIN as i128 || secs > i64::MAX as i128 {
            return None;
        }
        Some(T { secs: secs as i64, nanos })
    }
    fn to_system(self) -> Option<SystemTime> {
        if self.secs >= 0 {
            UNIX_EPOCH.checked_add(Duration::new(self.secs as u64, self.nanos))
        } else {
            UNIX_EPOCH
                .checked_sub(Duration::new(self.secs.unsigned_abs(), 0))?
                .checked_add(Duration::new(0, self.nanos))
        }
    }
    fn of_system(t: SystemTime) -> T {
        match t.duration_since(UNIX_EPOCH) {
            Ok(d) => T { secs: d.as_secs() as i64, nanos: d.subsec_nanos() },
            Err(e) => {
                let d = e.duration();
                T::from_ns(-(d.as_secs() as i128 * NS + d.subsec_nanos() as i128)).unwrap()
            }
        }
    }
}

fn min_ns() -> i128 {
    -EPOCH_1601 * NS
}
fn max_ns() -> i128 {
    min_ns() + (u64::MAX as i128) * 100
}

thread_local! {
    static PKG: RefCell<Option<Package<Cursor<Vec<u8>>>>> = const { RefCell::new(None) };
}

fn set_get(t: SystemTime) -> Option<SystemTime> {
    PKG.with(|p| {
        let mut p = p.borrow_mut();
        if p.is_none() {
            *p = Some(Package::create(PackageType::Installer, Cursor::new(Vec::new())).expect("create"));
        }
        let pkg = p.as_mut().unwrap();
        pkg.summary_info_mut().set_creation_time(t);
        pkg.summary_info().creation_time()
    })
}

fn region(ns: i128) -> &'static str {
    if ns < min_ns() {
        "before-1601"
    } else if ns / 100 - min_ns() / 100 > u64::MAX as i128 || ns > max_ns() {
        "after-max"
    } else {
        "inside"
    }
}

fn check_time(t: T) -> Check {
    let st = match t.to_system() {
        Some(s) => s,
        None => return Ok(()), // not a system time on this platform
    };
    let got = match set_get(st) {
        Some(g) => T::of_system(g),
        None => {
            return Err(Fail::new(format!("{P} lost"), format!("creation_time() is None right after set_creation_time({t:?})")));
        }
    };
    let ns = t.ns();
    match region(ns) {
        "before-1601" => {
            if got.ns() != min_ns() {
                return Err(Fail::new(
                    format!("{P} no-saturation-low"),
                    format!("set {t:?} (before 1601) read back as {got:?}, expected 1601-01-01 exactly"),
                ));
            }
        }
        "after-max" => {
            if got.ns() != max_ns() {
                return Err(Fail::new(
                    format!("{P} no-saturation-high"),
                    format!("set {t:?} (beyond the 64-bit tick maximum) read back as {got:?}, expected the maximum"),
                ));
            }
        }
        _ => {
            let diff = (got.ns() - ns).abs();
            if diff >= 100 {
                return Err(Fail::new(
                    format!("{P} drift"),
                    format!("set {t:?} read back as {got:?}: off by {diff} ns (resolution is 100 ns)"),
                ));
            }
        }
    }
    // idempotence: setting a returned time returns it unchanged
    if let Some(g) = got.to_system() {
        let again = set_get(g).map(T::of_system);
        if again != Some(got) {
            return Err(Fail::new(
                format!("{P} not-idempotent"),
                format!("set {t:?} -> {got:?}; setting that again -> {again:?}"),
            ));
        }
    }
    Ok(())
}

fn check_pair(a: T, b: T) -> Check {
    let (lo, hi) = if a <= b { (a, b) } else { (b, a) };
    let (Some(sl), Some(sh)) = (lo.to_system(), hi.to_system()) else { return Ok(()) };
    let gl = set_get(sl).map(T::of_system);
    let gh = set_get(sh).map(T::of_system);
    match (gl, gh) {
        (Some(gl), Some(gh)) => {
            if gl > gh {
                return Err(Fail::new(
                    format!("{P} not-monotonic"),
                    format!("{lo:?} <= {hi:?} but they read back as {gl:?} > {gh:?}"),
                ));
            }
            Ok(())
        }
        _ => Err(Fail::new(format!("{P} lost"), "creation_time() is None right after set".to_string())),
    }
}

fn check_reopen(t: T) -> Check {
    let Some(st) = t.to_system() else { return Ok(()) };
    let mut pkg = Package::create(PackageType::Installer, Cursor::new(Vec::new()))
        .map_err(|e| Fail::new(format!("{P} create-failed"), e.to_string()))?;
    pkg.summary_info_mut().set_creation_time(st);
    let before = pkg.summary_info().creation_time().map(T::of_system);
    let cursor = pkg.into_inner().map_err(|e| Fail::new(format!("{P} save-failed"), e.to_string()))?;
    let pkg = Package::open(Cursor::new(cursor.into_inner()))
        .map_err(|e| Fail::new(format!("{P} reopen-failed"), e.to_string()))?;
    let after = pkg.summary_info().creation_time().map(T::of_system);
    if before != after {
        return Err(Fail::new(
            format!("{P} reopen-differs"),
            format!("set {t:?}: {before:?} before saving, {after:?} after reopening"),
        ));
    }
    check_time(t)
}

/// The same round trip with the creation time at a chosen place in the
/// summary stream: a comments string of `pad` bytes is stored in front of it,
/// so that the eight bytes of the time fall on, before and across the
/// boundaries of the blocks a container stream is read in.
fn check_reopen_at(pad: usize) -> Check {
    // a time whose high and low halves both matter
    let st = std::time::UNIX_EPOCH + std::time::Duration::new(1_234_567_890, 123_456_700);
    let mut pkg = Package::create(PackageType::Installer, Cursor::new(Vec::new())).map_err(|e| Fail::new(format!("{P} create-failed"), e.to_string()))?;
    pkg.summary_info_mut().set_comments("c".repeat(pad));
    pkg.summary_info_mut().set_creation_time(st);
    let before = pkg.summary_info().creation_time().map(T::of_system);
    let cursor = pkg.into_inner().map_err(|e| Fail::new(format!("{P} save-failed"), e.to_string()))?;
    let pkg = Package::open(Cursor::new(cursor.into_inner())).map_err(|e| Fail::new(format!("{P} reopen-failed"), e.to_string()))?;
    let after = pkg.summary_info().creation_time().map(T::of_system);
    if before != after {
        return Err(Fail::new(format!("{P} reopen-differs-by-layout"), format!("with {pad} bytes of comments stored before it, the creation time reads {before:?} before saving and {after:?} after reopening")));
    }
    Ok(())
}

/// The same round trip next to string properties whose encoded length
/// changes: a string is set under one summary code page, the code page is
/// switched, the package is saved.  `case` = (string index, page pair, order).
fn check_reopen_beside_strings(case: (u8, u8, u8)) -> Check {
    use msi::CodePage;
    // (the first eight keep their positions: stored replay cases name them by index); the later ones hold
    // U+0000, an ordinary character in a length-prefixed summary string, at the start, inside and at the end
    let strings = ["é", "éé", "ééé", "éééé", "Zoë", "日本", "日本語", "naïve café", "a\0bcdefgh", "\0", "ab\0", "\0\0\0\0\0", "x\0yz\0 and a longer tail", "é\0éé", "", "abc"];
    let pairs = [(CodePage::Windows1252, CodePage::Utf8), (CodePage::Utf8, CodePage::Windows1252), (CodePage::Windows932, CodePage::Utf8), (CodePage::Utf8, CodePage::Windows932)];
    let text = strings[case.0 as usize % strings.len()];
    let (from, to) = pairs[case.1 as usize % pairs.len()];
    let st = std::time::UNIX_EPOCH + std::time::Duration::new(987_654_321, 98_765_400);
    let mut pkg = Package::create(PackageType::Installer, Cursor::new(Vec::new())).map_err(|e| Fail::new(format!("{P} create-failed"), e.to_string()))?;
    // a table-side edit made before the summary is first touched in a save
    // epoch (page-pair byte / 4: 0 none, 1 a new table, 2 a database
    // code-page switch, 3 a new table with a row)
    let mut edits = 0;
    let mut table_edit = |pkg: &mut Package<Cursor<Vec<u8>>>| -> std::io::Result<()> {
        edits += 1;
        match case.1 / 4 % 4 {
            0 => Ok(()),
            1 => pkg.create_table(format!("T{edits}"), vec![msi::Column::build("k").primary_key().int16()]),
            2 => {
                pkg.set_database_codepage(if edits % 2 == 1 { CodePage::Windows1252 } else { CodePage::Utf8 });
                Ok(())
            }
            _ => {
                pkg.create_table(format!("T{edits}"), vec![msi::Column::build("k").primary_key().int16(), msi::Column::build("s").nullable().string(0)])?;
                pkg.insert_rows(msi::Insert::into(format!("T{edits}")).row(vec![msi::Value::Int(1), msi::Value::from("text")]))
            }
        }
    };
    table_edit(&mut pkg).map_err(|e| Fail::new(format!("{P} edit-failed"), e.to_string()))?;
    pkg.summary_info_mut().set_codepage(from);
    if case.2 % 2 == 0 {
        pkg.summary_info_mut().set_creation_time(st);
    }
    // which string properties hold the text: author and comments (cases 0..16 of the order byte, as stored
    // replay cases expect), or one of the others that precede the creation time in the stream
    match case.2 / 4 {
        0 => {
            pkg.summary_info_mut().set_author(text);
            pkg.summary_info_mut().set_comments(text);
        }
        1 => pkg.summary_info_mut().set_title(text),
        2 => pkg.summary_info_mut().set_subject(text),
        _ => {
            pkg.summary_info_mut().set_title(text);
            pkg.summary_info_mut().set_creating_application(text);
        }
    }
    if case.2 % 2 == 1 {
        pkg.summary_info_mut().set_creation_time(st);
    }
    if case.2 % 4 >= 2 {
        // the strings are saved once under the first page
        pkg.flush().map_err(|e| Fail::new(format!("{P} save-failed"), e.to_string()))?;
        // second epoch: the table-side edit comes first again, and the time
        // is set anew (to another value) after it
        table_edit(&mut pkg).map_err(|e| Fail::new(format!("{P} edit-failed"), e.to_string()))?;
        pkg.summary_info_mut().set_creation_time(st + std::time::Duration::new(86_400, 700));
    }
    pkg.summary_info_mut().set_codepage(to);
    let before = pkg.summary_info().creation_time().map(T::of_system);
    let cursor = pkg.into_inner().map_err(|e| Fail::new(format!("{P} save-failed"), e.to_string()))?;
    let pkg = Package::open(Cursor::new(cursor.into_inner())).map_err(|e| Fail::new(format!("{P} reopen-failed-beside-strings"), format!("strings {text:?} set under {from:?}, code page switched to {to:?} (order {}): the saved package does not open: {e}", case.2 % 4)))?;
    let after = pkg.summary_info().creation_time().map(T::of_system);
    if before != after {
        return Err(Fail::new(format!("{P} reopen-differs-beside-strings"), format!("strings {text:?} set under {from:?}, code page switched to {to:?} (order {}): creation time {before:?} before saving, {after:?} after reopening", case.2 % 4)));
    }
    Ok(())
}

/// "Setting a returned time again returns it unchanged", across saves: a
/// package saved with time A is reopened, A is read, B is set and saved with
/// flush(), the value read at first is set again, and the package is saved
/// and reopened: it reads A.
fn check_set_back(case: (u8, u8)) -> Check {
    let times = [0i64, 1, 1_000_000_000, -1_000_000_000, 50_000_000_000, -11_644_473_600, 1_234_567_890];
    let at = |secs: i64| -> std::time::SystemTime {
        if secs >= 0 {
            std::time::UNIX_EPOCH + std::time::Duration::from_secs(secs as u64)
        } else {
            std::time::UNIX_EPOCH - std::time::Duration::from_secs(secs.unsigned_abs())
        }
    };
    let a = at(times[case.0 as usize % times.len()]);
    let b = at(times[(case.0 as usize + 1 + case.1 as usize % 5) % times.len()]);
    let e = |what: &str, x: std::io::Error| Fail::new(format!("{P} unexpected-error op={what}"), x.to_string());
    let mut pkg = Package::create(PackageType::Installer, Cursor::new(Vec::new())).map_err(|x| e("create", x))?;
    pkg.summary_info_mut().set_creation_time(a);
    let cur = pkg.into_inner().map_err(|x| e("into_inner", x))?;
    let mut pkg = Package::open(Cursor::new(cur.into_inner())).map_err(|x| e("open", x))?;
    let first = pkg.summary_info().creation_time();
    pkg.summary_info_mut().set_creation_time(b);
    if case.1 % 2 == 0 {
        pkg.flush().map_err(|x| e("flush", x))?;
    }
    if let Some(t) = first {
        pkg.summary_info_mut().set_creation_time(t);
    }
    let cur = pkg.into_inner().map_err(|x| e("into_inner", x))?;
    let pkg = Package::open(Cursor::new(cur.into_inner())).map_err(|x| e("reopen", x))?;
    let last = pkg.summary_info().creation_time();
    if last != first {
        return Err(Fail::new(format!("{P} set-back-differs"), format!("a package saved with {:?} was reopened, set to {:?}{}, set back to the value read at first and saved: it reopens with {:?}", first.map(T::of_system), T::of_system(b), if case.1 % 2 == 0 { " and flushed" } else { "" }, last.map(T::of_system))));
    }
    Ok(())
}

fn anchors() -> Vec<i128> {
    // the ends of the representable range, the Unix epoch, and every point
    // where an intermediate quantity of a conversion reaches a 64-bit limit:
    // +-u64::MAX ticks from the Unix epoch (the delta saturates there), and
    // +-(u64::MAX / 10^7) seconds (the seconds-to-ticks product saturates)
    let delta_max = u64::MAX as i128 * 100;
    let secs_max = (u64::MAX / 10_000_000) as i128 * NS;
    vec![min_ns(), 0, max_ns(), delta_max, -delta_max, secs_max, secs_max + NS, -secs_max, -secs_max - NS]
}

fn time_strategy() -> impl Strategy<Value = T> {
    let lo = min_ns();
    let _hi = max_ns();
    prop_oneof![
        // uniform inside the representable range
        4 => (0u64..=u64::MAX, 0u32..100).prop_map(move |(tick, sub)| T::from_ns(lo + tick as i128 * 100 + sub as i128).unwrap()),
        // log-uniform distance from each anchor, both sides
        4 => (0usize..9, 0u32..63, any::<u64>(), any::<bool>()).prop_map(move |(a, bits, r, neg)| {
            let mag = (r >> (63 - bits)) as i128;
            let base = anchors()[a];
            T::from_ns(if neg { base - mag } else { base + mag }).unwrap()
        }),
        // ordinary dates 1900..2100
        2 => (-2_208_988_800i64..4_102_444_800i64, 0u32..1_000_000_000).prop_map(|(secs, nanos)| T { secs, nanos }),
        // platform extremes
        1 => (any::<i64>(), 0u32..1_000_000_000).prop_map(|(secs, nanos)| T { secs, nanos }),
    ]
}

pub fn run(ctx: &Ctx) -> Report {
    let mut rep = Report::new(
        "exploration",
        "system times as signed (secs, nanos) offsets from the Unix epoch: every tick boundary +-3 ticks x sub-tick nanoseconds 0..199 around 1601-01-01, 1970-01-01 and the 64-bit tick maximum (enumerated), platform extremes, uniform / log-uniform / ordinary generated times, generated pairs for monotonicity, a sample through save and reopen, alone, behind comments of every length that moves it across a 4, 8 or 16 KiB boundary of the stream, and beside string properties (title, subject, author, comments, creating application; non-ASCII text and text with U+0000 at the start, inside and at the end) under summary code-page switches, with and without a table-side edit (new table, database code-page switch, new table with a row) made before the summary is first touched in each save epoch. Non-trivial = a time that is not on a tick boundary or lies within 1 s of a range end; distinct by the time itself.",
    );
    let mut st = Stats::new();

    // 1. enumerated neighbourhoods
    let mut near: Vec<T> = Vec::new();
    for a in anchors() {
        for tick in -3i128..=3 {
            for sub in 0..200i128 {
                if let Some(t) = T::from_ns(a + tick * 100 + sub) {
                    near.push(t);
                }
                if let Some(t) = T::from_ns(a + tick * 100 - sub) {
                    near.push(t);
                }
            }
        }
        for s in [-2i128, -1, 1, 2] {
            for sub in [0i128, 1, 99, 100, 101, 999_999_999] {
                if let Some(t) = T::from_ns(a + s * NS + sub) {
                    near.push(t);
                }
            }
        }
    }
    for secs in [i64::MIN, i64::MIN + 1, i64::MAX, i64::MAX - 1, -62_135_596_800, 253_402_300_800] {
        for nanos in [0u32, 1, 99, 100, 999_999_999] {
            near.push(T { secs, nanos });
        }
    }
    let classify = |t: &T, st: &mut Stats| {
        let ns = t.ns();
        let off_tick = ns.rem_euclid(100) != 0;
        let near_end = (ns - min_ns()).abs() <= NS || (ns - max_ns()).abs() <= NS;
        if off_tick || near_end {
            st.nontrivial(t);
        }
        st.class(region(ns));
        if off_tick {
            st.class("off-tick");
        }
    };
    let v = par_enumerate(ctx, "time", &near, |t, st| {
        st.eval();
        classify(t, st);
        check_time(*t)
    }, &mut st);
    rep.push(v);
    st.sample(json!({"secs": -11_644_473_600i64, "nanos": 150, "meaning": "1601-01-01 + 150 ns"}));

    // 2. generated times
    let v = search(ctx, "time", ctx.tier.pick(2_000_000, 50_000_000), time_strategy, |t: &T, st| {
        st.eval();
        classify(t, st);
        if st.wants_sample() && t.nanos % 100 != 0 {
            st.sample(json!(t));
        }
        check_time(*t)
    }, &mut st);
    rep.push(v);

    // 3. monotonicity on generated pairs (near pairs are the interesting ones)
    let v = search(
        ctx,
        "pair",
        ctx.tier.pick(500_000, 10_000_000),
        || (time_strategy(), prop_oneof![(-400i64..400).prop_map(|d| d as i128), any::<i64>().prop_map(|d| d as i128)]).prop_map(|(a, d)| (a, T::from_ns(a.ns() + d).unwrap_or(a))),
        |(a, b): &(T, T), st| {
            st.eval();
            st.nontrivial(&(a, b));
            st.class("pair");
            check_pair(*a, *b)
        },
        &mut st,
    );
    rep.push(v);

    // 4. through save + reopen
    let v = search(ctx, "reopen", ctx.tier.pick(2_000, 100_000), time_strategy, |t: &T, st| {
        st.eval();
        classify(t, st);
        st.class("reopen");
        check_reopen(*t)
    }, &mut st);
    rep.push(v);

    // 5. the position of the value in the stream: every padding length that
    // moves it across a 4 KiB, 8 KiB or 16 KiB boundary of the stream
    let mut pads: Vec<usize> = Vec::new();
    for centre in [4_096usize, 8_192, 16_384] {
        pads.extend(centre - 260..centre + 40);
    }
    let v = par_enumerate(ctx, "layout", &pads, |pad, st| {
        st.eval();
        st.nontrivial(&("layout", *pad));
        st.class("reopen:layout");
        check_reopen_at(*pad)
    }, &mut st);
    rep.push(v);

    // 5b. set, save, reopen, set another, (flush,) set the first again, save
    let mut backs: Vec<(u8, u8)> = Vec::new();
    for a in 0..7u8 {
        for b in 0..6u8 {
            backs.push((a, b));
        }
    }
    let v = par_enumerate(ctx, "setback", &backs, |c, st| {
        st.eval();
        st.nontrivial(&("setback", *c));
        st.class("reopen:set-back");
        check_set_back(*c)
    }, &mut st);
    rep.push(v);

    // 6. beside strings whose encoded length changes with the code page
    let mut beside: Vec<(u8, u8, u8)> = Vec::new();
    for a in 0..16u8 {
        for b in 0..16u8 {
            for c in 0..16u8 {
                beside.push((a, b, c));
            }
        }
    }
    let v = par_enumerate(ctx, "strings", &beside, |c, st| {
        st.eval();
        st.nontrivial(&("strings", *c));
        st.class("reopen:beside-strings");
        check_reopen_beside_strings(*c)
    }, &mut st);
    rep.push(v);

    rep.stats = st;
    rep
}

pub fn replay(_ctx: &Ctx, doc: &J) -> Check {
    let kind = doc["kind"].as_str().unwrap_or("");
    let bad = |e: serde_json::Error| Fail::new(format!("{P} bad-replay"), e.to_string());
    match kind {
        "time" => check_time(serde_json::from_value(doc["case"].clone()).map_err(bad)?),
        "reopen" => check_reopen(serde_json::from_value(doc["case"].clone()).map_err(bad)?),
        "setback" => check_set_back(serde_json::from_value(doc["case"].clone()).map_err(bad)?),
        "strings" => check_reopen_beside_strings(serde_json::from_value(doc["case"].clone()).map_err(bad)?),
        "layout" => check_reopen_at(doc["case"].as_u64().unwrap_or(0) as usize),
        "pair" => {
            let (a, b): (T, T) = serde_json::from_value(doc["case"].clone()).map_err(bad)?;
            check_pair(a, b)
        }
        _ => Err(Fail::new(format!("{P} bad-replay"), format!("unknown case kind {kind:?}"))),
    }
}
