//! C06 — a created table reopens with the schema it was created with.

use crate::engine::{search, Check, Ctx, Fail, Report, Stats};
use crate::fmt::{self, Cell};
use crate::media::SharedBuf;
use crate::model::{Cat, ColDef, Ty, CATS};
use crate::props::c08::expected_type_bits;
use msi::{Package, PackageType};
use proptest::prelude::*;
use serde::{Deserialize, Serialize};
use serde_json::{json, Value as J};

const P: &str = "C06";

#[derive(Clone, Debug, Serialize, Deserialize, Hash, PartialEq, Eq)]
pub struct Case {
    pub table: String,
    pub cols: Vec<ColDef>,
    pub close: u8,
}

/// Definitions inside the clearly representable core: these must be accepted.
pub fn in_core(table: &str, cols: &[ColDef]) -> bool {
    let ident = |s: &str| crate::model::cat_ref(Cat::by_name("Identifier").unwrap(), s) == Some(true);
    if !ident(table) || table.chars().count() > 31 || cols.is_empty() || cols.len() > 32 {
        return false;
    }
    if !cols.iter().any(|c| c.key) {
        return false;
    }
    let mut names = std::collections::BTreeSet::new();
    for c in cols {
        if !ident(&c.name) || c.name.chars().count() > 32 || !names.insert(c.name.clone()) {
            return false;
        }
        if let Ty::Str(w) = c.ty {
            if w > 255 {
                return false;
            }
        }
        if let Some((lo, hi)) = c.range {
            if lo < -0x7fff_ffff || hi < -0x7fff_ffff {
                return false;
            }
        }
        if !c.enums.is_empty() {
            if c.enums.iter().any(|e| e.is_empty() || e.contains(';')) {
                return false;
            }
            if c.enums.join(";").chars().count() > 255 {
                return false;
            }
        }
        if let Some((t, n)) = &c.fk {
            if !ident(t) || t.chars().count() > 255 || !(1..=32).contains(n) {
                return false;
            }
        }
    }
    true
}

fn non_default(c: &ColDef) -> bool {
    c.nullable || c.localizable || c.range.is_some() || c.category.is_some() || !c.enums.is_empty() || c.fk.is_some() || matches!(c.ty, Ty::Str(w) if w != 0)
}

fn schema_of(pkg: &Package<SharedBuf>, table: &str) -> Option<Vec<ColDef>> {
    pkg.get_table(table).map(|t| t.columns().iter().map(ColDef::observe).collect())
}

fn strip_fk(cols: &[ColDef]) -> Vec<ColDef> {
    cols.iter()
        .map(|c| {
            let mut c = c.clone();
            c.fk = None;
            c
        })
        .collect()
}

pub fn check_case(case: &Case, st: &mut Stats) -> Check {
    // one case in eight: a name with a letter outside ASCII, in a database
    // whose code page cannot store that letter.  Such a definition must be
    // refused, or else come back unaltered like any other.
    let exotic = (case.close / 3) % 8 == 7;
    let case = &if exotic {
        let mut c = case.clone();
        let letter = ['Ω', 'é', 'ж', '中'][(case.close as usize / 24) % 4];
        if case.close % 2 == 0 {
            c.table.insert(1.min(c.table.len()), letter);
        } else {
            let n = c.cols.len();
            let col = &mut c.cols[(case.close as usize / 48) % n];
            col.name.insert(1.min(col.name.len()), letter);
        }
        c
    } else {
        case.clone()
    };
    // the database code page varies over all supported pages; enumerations
    // then also get a member spelled with the page's own non-ASCII characters
    // (schema strings live in the string pool like any cell)
    let pages = crate::cpref::PAGES;
    let page = &pages[(case.table.len() + case.cols.len() * 7 + case.close as usize) % pages.len()];
    let case = &if !exotic && page.id != 65001 {
        let mut c = case.clone();
        let special: Vec<char> = crate::cpref::repertoire(page).into_iter().filter(|ch| !ch.is_ascii() && !ch.is_control() && *ch != ';').collect();
        if !special.is_empty() {
            for (i, col) in c.cols.iter_mut().enumerate() {
                if !col.enums.is_empty() && (i + case.close as usize) % 2 == 0 && col.enums.join(";").chars().count() + 8 <= 255 {
                    let a = special[(i * 5 + case.close as usize) % special.len()];
                    let b = special[(i * 11 + 3) % special.len()];
                    col.enums.push(format!("{a}{b}"));
                    col.enums.push(format!("x{a}"));
                }
            }
        }
        c
    } else {
        case.clone()
    };
    let buf = SharedBuf::new(Vec::new());
    let mut pkg = Package::create(PackageType::Installer, buf.clone()).map_err(|e| Fail::new(format!("{P} unexpected-error op=Create"), e.to_string()))?;
    if !exotic && page.id != 65001 {
        pkg.set_database_codepage(page.cp);
        st.class("database-code-page-not-utf8");
    }
    if exotic {
        pkg.set_database_codepage(if (case.close / 3) % 16 == 7 { msi::CodePage::Windows1252 } else { msi::CodePage::UsAscii });
        st.class("exotic-name-under-narrow-code-page");
    }
    let built: Vec<msi::Column> = case.cols.iter().map(|c| c.build()).collect();
    let res = crate::engine::catch(|| pkg.create_table(case.table.as_str(), built)).map_err(|(loc, msg)| Fail::new(format!("{P} panic at={loc}"), format!("create_table panicked: {msg}; definition: {:?}", case)))?;
    let core = in_core(&case.table, &case.cols);
    match res {
        Err(e) => {
            if core {
                return Err(Fail::new(format!("{P} refused-representable"), format!("create_table refused a definition inside the representable core: {e}; definition: {case:?}")));
            }
            st.class("refused");
            return Ok(());
        }
        Ok(()) => {}
    }
    st.class(if core { "accepted:core" } else { "accepted:outside-core" });
    let want = strip_fk(&case.cols);
    // immediately
    let now = schema_of(&pkg, &case.table).ok_or_else(|| Fail::new(format!("{P} table-missing when=immediately"), format!("create_table returned Ok but get_table finds nothing; definition: {case:?}")))?;
    if now != want {
        return Err(Fail::new(format!("{P} schema-differs when=immediately"), format!("reported {now:?}, created {want:?}")));
    }
    // in a third of the cases under a page other than UTF-8: save, then move
    // the database to UTF-8 (which can spell everything) and save again; the
    // schema strings have to follow the code page
    if !exotic && page.id != 65001 && (case.close / 3) % 3 == 1 {
        pkg.flush().map_err(|e| Fail::new(format!("{P} unexpected-error op=Flush"), e.to_string()))?;
        pkg.set_database_codepage(msi::CodePage::Utf8);
        st.class("code-page-switched-after-a-save");
    }
    // after save + reopen
    let bytes = match case.close % 3 {
        0 => {
            pkg.flush().map_err(|e| Fail::new(format!("{P} unexpected-error op=Flush"), e.to_string()))?;
            let b = buf.bytes();
            drop(pkg);
            b
        }
        1 => pkg.into_inner().map_err(|e| Fail::new(format!("{P} unexpected-error op=IntoInner"), e.to_string()))?.bytes(),
        _ => {
            drop(pkg);
            buf.bytes()
        }
    };
    let pkg2 = Package::open(SharedBuf::new(bytes.clone())).map_err(|e| Fail::new(format!("{P} reopen-error"), format!("{e}; definition: {case:?}")))?;
    let after = schema_of(&pkg2, &case.table).ok_or_else(|| Fail::new(format!("{P} table-missing when=after-reopen"), format!("the table is gone after reopening; definition: {case:?}")))?;
    if after != want {
        let i = after.iter().zip(want.iter()).position(|(a, b)| a != b).unwrap_or(after.len().min(want.len()));
        return Err(Fail::new(
            format!("{P} schema-differs when=after-reopen"),
            format!("column #{i} reopens as {:?} but was created as {:?} (table {:?}, {} columns)", after.get(i), want.get(i), case.table, want.len()),
        ));
    }
    // the independent decoder sees the same definition in _Columns / _Validation
    let d = fmt::decode(&bytes).map_err(|e| Fail::new(format!("{P} file-undecodable"), e))?;
    let dt = d.tables.get(&case.table).ok_or_else(|| Fail::new(format!("{P} catalog-missing"), format!("table {:?} not in the decoded catalog", case.table)))?;
    if dt.cols.len() != want.len() {
        return Err(Fail::new(format!("{P} catalog-differs part=column-count"), format!("_Columns has {} columns for {:?}, created {}", dt.cols.len(), case.table, want.len())));
    }
    for (c, (name, word)) in case.cols.iter().zip(dt.cols.iter()) {
        let (mask, bits) = expected_type_bits(c);
        if name != &c.name || word & mask != bits & mask {
            return Err(Fail::new(format!("{P} catalog-differs part=type-word"), format!("_Columns holds ({name:?}, {word:#06x}) for column {c:?}; expected bits {bits:#06x} under mask {mask:#06x}")));
        }
    }
    let val = d.tables.get("_Validation").ok_or_else(|| Fail::new(format!("{P} catalog-missing"), "no _Validation table".to_string()))?;
    let text = |c: &Cell| -> Result<Option<String>, Fail> {
        match c {
            Cell::Null => Ok(None),
            Cell::Ref(r) => d.pool.text(*r).map(Some).map_err(|e| Fail::new(format!("{P} file-undecodable"), e)),
            Cell::Int(i) => Ok(Some(format!("#{i}"))),
        }
    };
    let int = |c: &Cell| -> Option<i32> {
        match c {
            Cell::Int(i) => Some(*i),
            _ => None,
        }
    };
    for c in &case.cols {
        let mut found = None;
        for r in &val.rows {
            if text(&r[0])?.as_deref() == Some(case.table.as_str()) && text(&r[1])?.as_deref() == Some(c.name.as_str()) {
                found = Some(r);
            }
        }
        let r = found.ok_or_else(|| Fail::new(format!("{P} catalog-differs part=validation-row"), format!("no _Validation row for {}.{}", case.table, c.name)))?;
        let nullable = text(&r[2])?;
        let want_nullable = if c.nullable { "Y" } else { "N" };
        let range = match (int(&r[3]), int(&r[4])) {
            (Some(a), Some(b)) => Some((a, b)),
            _ => None,
        };
        let fk = match (text(&r[5])?, int(&r[6])) {
            (Some(t), Some(n)) => Some((t, n)),
            _ => None,
        };
        let cat = text(&r[7])?;
        let want_cat = c.category.map(|k| CATS[k.0 as usize].1.to_string());
        let set = text(&r[8])?;
        let want_set = if c.enums.is_empty() { None } else { Some(c.enums.join(";")) };
        if nullable.as_deref() != Some(want_nullable) || range != c.range || fk != c.fk || cat != want_cat || set != want_set {
            return Err(Fail::new(
                format!("{P} catalog-differs part=validation-row"),
                format!("_Validation row for {}.{} holds nullable={nullable:?} range={range:?} key={fk:?} category={cat:?} set={set:?}; created {c:?}", case.table, c.name),
            ));
        }
    }
    if case.cols.iter().any(non_default) {
        st.nontrivial(case);
    }
    Ok(())
}

fn ident_of_len(n: usize, salt: usize) -> String {
    let alphabet = b"abcdefghijklmnopqrstuvwxyzABCDEFGHIJKLMNOPQRSTUVWXYZ_.0123456789";
    let mut s = String::new();
    s.push((b'A' + (salt % 26) as u8) as char);
    while s.len() < n {
        s.push(alphabet[(salt * 7 + s.len() * 13) % alphabet.len()] as char);
    }
    s
}

fn col_strategy() -> impl Strategy<Value = ColDef> {
    let ty = prop_oneof![
        2 => Just(Ty::I16),
        2 => Just(Ty::I32),
        6 => prop::sample::select(vec![0usize, 1, 2, 8, 64, 72, 255]).prop_map(Ty::Str),
        2 => prop::sample::select(vec![256usize, 300, 511, 512, 0x7ff, 0x800, 0x1000, 0x7fff, 65535]).prop_map(Ty::Str),
        1 => (0usize..65536).prop_map(Ty::Str),
    ];
    let range = prop_oneof![
        6 => Just(None),
        2 => (-100i32..100, -100i32..100).prop_map(Some),
        1 => prop::sample::select(vec![(i32::MIN, i32::MAX), (-i32::MAX, i32::MAX), (0, i32::MIN), (i32::MIN, 0), (5, -5), (0, 0)]).prop_map(Some),
    ];
    let enums = prop_oneof![
        8 => Just(vec![]),
        2 => Just(vec!["Y".to_string(), "N".to_string()]),
        1 => Just(vec!["a;b".to_string(), "c".to_string()]),
        1 => Just(vec!["".to_string(), "x".to_string()]),
        1 => Just(vec!["".to_string()]),
        1 => Just(vec!["x".repeat(200), "y".repeat(60)]),
        1 => Just(vec!["x".repeat(255)]),
        1 => prop::collection::vec("[a-zA-Z0-9 ]{1,6}", 1..5),
    ];
    let fk = prop_oneof![
        8 => Just(None),
        2 => Just(Some(("Other".to_string(), 1))),
        1 => Just(Some(("Other".to_string(), 32))),
        1 => Just(Some(("Other".to_string(), 33))),
        1 => Just(Some(("Other".to_string(), 0))),
        1 => Just(Some(("not an identifier".to_string(), 1))),
        1 => Just(Some(("".to_string(), 1))),
        1 => Just(Some((ident_of_len(256, 3), 1))),
    ];
    let cat = prop_oneof![3 => Just(None), 4 => (0u8..26).prop_map(|i| Some(Cat(i)))];
    (ty, any::<bool>(), prop::bool::weighted(0.3), prop::bool::weighted(0.3), range, cat, enums, fk).prop_map(|(ty, nullable, key, localizable, range, category, enums, fk)| ColDef {
        name: String::new(),
        ty,
        nullable,
        key,
        localizable,
        range,
        category,
        enums,
        fk,
    })
}

fn coerce_core(c: &mut ColDef) {
    if let Ty::Str(w) = c.ty {
        c.ty = Ty::Str(w.min(255));
    }
    c.enums.retain(|e| !e.is_empty() && !e.contains(';'));
    while c.enums.join(";").chars().count() > 255 {
        c.enums.pop();
    }
    if let Some((lo, hi)) = c.range {
        c.range = Some((lo.max(-i32::MAX), hi.max(-i32::MAX)));
    }
    if let Some((t, n)) = &c.fk {
        if !(1..=32).contains(n) || t != "Other" {
            c.fk = Some(("Other".to_string(), 2));
        }
    }
}

// ------------------------------------------------------------------------- //
// Histories: tables created, dropped and created again in one session.  The
// strings of a schema (table, column, category and set names) live in the
// shared string pool, a drop releases them and the next creation reuses their
// slots, so "reports the schema it was created with" also has to hold for a
// table created after others have come and gone.

#[derive(Clone, Debug, Serialize, Deserialize, Hash, PartialEq, Eq)]
pub enum HStep {
    Create { t: u8, cols: Vec<ColDef> },
    Drop { t: u8 },
    Reopen { close: u8 },
    /// create table `t` with the column list of the `like`-th live table: a
    /// creation that may add no new string to the pool at all
    CreateLike { t: u8, like: u8 },
    /// row traffic on an auxiliary table (`_Traffic`: k int16 key, s and t
    /// free strings) whose texts are the very strings the catalog holds for
    /// the history's tables (their names, their column names, "Y", "N",
    /// category names): 0 insert `n` rows, 1 update every row, 2 update one
    /// row, 3 delete every row, 4 delete one row
    Traffic { kind: u8, sel: u8, n: u8 },
}

#[derive(Clone, Debug, Serialize, Deserialize, Hash, PartialEq, Eq)]
pub struct HistCase {
    pub steps: Vec<HStep>,
}

/// Table names, and the pool column names are drawn from: they overlap with
/// each other and with the strings creation writes into `_Validation`
/// ("Y", "N", category names) on purpose, and `Tab` + `x.k` spells the same
/// dotted path as `Tab.x` + `k` (identifiers may contain periods).
const HT: [&str; 4] = ["Tab", "Tab.x", "x", "Identifier"];
const HC: [&str; 10] = ["k", "a", "x.k", "x", "Tab", "Name", "Y", "N", "x.a", "Other"];

fn hist_compare(pkg: &Package<SharedBuf>, model: &std::collections::BTreeMap<String, Vec<ColDef>>, when: &str, trace: &str) -> Check {
    let mut listed: Vec<String> = pkg.tables().map(|t| t.name().to_string()).filter(|n| !n.starts_with('_')).collect();
    listed.sort();
    let want: Vec<String> = model.keys().cloned().collect();
    if listed != want {
        return Err(Fail::new(format!("{P} history table-list when={when}"), format!("tables() lists {listed:?}, created and not dropped: {want:?}; history: {trace}")));
    }
    for (name, cols) in model {
        let got = schema_of(pkg, name).ok_or_else(|| Fail::new(format!("{P} table-missing when={when}"), format!("table {name:?} is not reported; history: {trace}")))?;
        let want = strip_fk(cols);
        if got != want {
            let i = got.iter().zip(want.iter()).position(|(a, b)| a != b).unwrap_or(got.len().min(want.len()));
            return Err(Fail::new(
                format!("{P} history schema-differs when={when}"),
                format!("table {name:?} column #{i} is reported as {:?} but was created as {:?}; history: {trace}", got.get(i), want.get(i)),
            ));
        }
    }
    Ok(())
}

pub fn check_hist(case: &HistCase, st: &mut Stats) -> Check {
    let mut buf = SharedBuf::new(Vec::new());
    let mut pkg = Package::create(PackageType::Installer, buf.clone()).map_err(|e| Fail::new(format!("{P} unexpected-error op=Create"), e.to_string()))?;
    let mut model: std::collections::BTreeMap<String, Vec<ColDef>> = std::collections::BTreeMap::new();
    let mut trace = String::new();
    let mut dropped = false;
    let mut created_after_drop = false;
    let mut traffic_table = false;
    let mut next_key = 1i32;
    let text = |sel: u8| -> msi::Value {
        const EXTRA: [&str; 6] = ["Y", "N", "Identifier", "Text", "_Traffic", "s"];
        let i = sel as usize % (HC.len() + HT.len() + EXTRA.len());
        msi::Value::from(if i < HC.len() { HC[i] } else if i < HC.len() + HT.len() { HT[i - HC.len()] } else { EXTRA[i - HC.len() - HT.len()] })
    };
    for step in &case.steps {
        // late-bound: a copy of a live table's column list
        let resolved;
        let step = match step {
            HStep::CreateLike { t, like } => {
                if model.is_empty() {
                    continue;
                }
                let cols = model.values().nth(*like as usize % model.len()).unwrap().clone();
                st.class("history:create-like");
                resolved = HStep::Create { t: *t, cols };
                &resolved
            }
            other => other,
        };
        match step {
            HStep::CreateLike { .. } => unreachable!(),
            HStep::Create { t, cols } => {
                let name = HT[*t as usize % HT.len()];
                trace.push_str(&format!("create_table({name}, {}); ", cols.iter().map(|c| format!("{}:{:?}", c.name, c.ty)).collect::<Vec<_>>().join(",")));
                let built: Vec<msi::Column> = cols.iter().map(|c| c.build()).collect();
                let res = crate::engine::catch(|| pkg.create_table(name, built)).map_err(|(loc, msg)| Fail::new(format!("{P} panic at={loc}"), format!("create_table panicked: {msg}; history: {trace}")))?;
                match (res, model.contains_key(name)) {
                    (Ok(()), true) => return Err(Fail::new(format!("{P} history created-twice"), format!("create_table accepted a table that already exists; history: {trace}"))),
                    (Err(_), true) => {}
                    (Ok(()), false) => {
                        model.insert(name.to_string(), cols.clone());
                        created_after_drop |= dropped;
                    }
                    (Err(e), false) => {
                        if in_core(name, cols) {
                            return Err(Fail::new(format!("{P} refused-representable"), format!("create_table refused a definition inside the representable core: {e}; history: {trace}")));
                        }
                    }
                }
                hist_compare(&pkg, &model, "immediately", &trace)?;
            }
            HStep::Drop { t } => {
                let name = HT[*t as usize % HT.len()];
                trace.push_str(&format!("drop_table({name}); "));
                let res = crate::engine::catch(|| pkg.drop_table(name)).map_err(|(loc, msg)| Fail::new(format!("{P} panic at={loc}"), format!("drop_table panicked: {msg}; history: {trace}")))?;
                match (res, model.contains_key(name)) {
                    (Ok(()), true) => {
                        model.remove(name);
                        dropped = true;
                    }
                    (Err(e), true) => return Err(Fail::new(format!("{P} history drop-refused"), format!("drop_table refused an existing table: {e}; history: {trace}"))),
                    (Ok(()), false) => return Err(Fail::new(format!("{P} history dropped-missing"), format!("drop_table accepted a table that does not exist; history: {trace}"))),
                    (Err(_), false) => {}
                }
                hist_compare(&pkg, &model, "immediately", &trace)?;
            }
            HStep::Traffic { kind, sel, n } => {
                use msi::{Delete, Expr, Insert, Update, Value};
                if !traffic_table {
                    let cols = vec![msi::Column::build("k").primary_key().int16(), msi::Column::build("s").nullable().string(0), msi::Column::build("t").nullable().string(0)];
                    if pkg.create_table("_Traffic", cols).is_err() {
                        continue;
                    }
                    traffic_table = true;
                }
                let n = 1 + (*n % 4) as i32;
                let res = crate::engine::catch(|| match kind % 5 {
                    0 => {
                        let rows: Vec<Vec<Value>> = (0..n).map(|i| vec![Value::Int(next_key + i), text(*sel), text(sel.wrapping_add(1 + i as u8))]).collect();
                        pkg.insert_rows(Insert::into("_Traffic").rows(rows))
                    }
                    1 => pkg.update_rows(Update::table("_Traffic").set("s", text(*sel)).set("t", text(sel.wrapping_add(3)))),
                    2 => pkg.update_rows(Update::table("_Traffic").set("s", text(*sel)).with(Expr::col("k").eq(Expr::integer(1 + (*sel as i32 % next_key.max(1)))))),
                    3 => pkg.delete_rows(Delete::from("_Traffic")),
                    _ => pkg.delete_rows(Delete::from("_Traffic").with(Expr::col("k").eq(Expr::integer(1 + (*sel as i32 % next_key.max(1)))))),
                })
                .map_err(|(loc, msg)| Fail::new(format!("{P} panic at={loc}"), format!("row traffic panicked: {msg}; history: {trace}")))?;
                trace.push_str(&format!("_Traffic: {} (text {:?}, n {n}) -> {}; ", ["insert", "update all", "update one", "delete all", "delete one"][(*kind % 5) as usize], text(*sel), if res.is_ok() { "ok" } else { "refused" }));
                if res.is_ok() && kind % 5 == 0 {
                    next_key += n;
                }
                st.class("history:row-traffic");
                hist_compare(&pkg, &model, "immediately", &trace)?;
            }
            HStep::Reopen { close } => {
                trace.push_str("reopen; ");
                let bytes = match close % 3 {
                    0 => {
                        pkg.flush().map_err(|e| Fail::new(format!("{P} unexpected-error op=Flush"), format!("{e}; history: {trace}")))?;
                        let b = buf.bytes();
                        drop(pkg);
                        b
                    }
                    1 => pkg.into_inner().map_err(|e| Fail::new(format!("{P} unexpected-error op=IntoInner"), format!("{e}; history: {trace}")))?.bytes(),
                    _ => {
                        drop(pkg);
                        buf.bytes()
                    }
                };
                buf = SharedBuf::new(bytes);
                pkg = Package::open(buf.clone()).map_err(|e| Fail::new(format!("{P} reopen-error"), format!("{e}; history: {trace}")))?;
                hist_compare(&pkg, &model, "after-reopen", &trace)?;
            }
        }
    }
    // the end of every history: save, reopen, compare, and let the
    // independent decoder name the live tables
    trace.push_str("close");
    let bytes = pkg.into_inner().map_err(|e| Fail::new(format!("{P} unexpected-error op=IntoInner"), format!("{e}; history: {trace}")))?.bytes();
    let pkg2 = Package::open(SharedBuf::new(bytes.clone())).map_err(|e| Fail::new(format!("{P} reopen-error"), format!("{e}; history: {trace}")))?;
    hist_compare(&pkg2, &model, "after-reopen", &trace)?;
    let d = fmt::decode(&bytes).map_err(|e| Fail::new(format!("{P} file-undecodable"), format!("{e}; history: {trace}")))?;
    for (name, cols) in &model {
        let dt = d.tables.get(name).ok_or_else(|| Fail::new(format!("{P} catalog-missing"), format!("table {name:?} not in the decoded catalog; history: {trace}")))?;
        let names: Vec<&String> = dt.cols.iter().map(|c| &c.0).collect();
        let want: Vec<&String> = cols.iter().map(|c| &c.name).collect();
        if names != want {
            return Err(Fail::new(format!("{P} catalog-differs part=column-names"), format!("_Columns names {names:?} for table {name:?}, created {want:?}; history: {trace}")));
        }
    }
    st.class(&format!("history:live-tables={}", model.len()));
    if created_after_drop {
        st.class("history:create-after-drop");
        st.nontrivial(case);
    }
    Ok(())
}

fn hist_strategy() -> impl Strategy<Value = HistCase> {
    let cols = prop::collection::vec((col_strategy(), any::<u16>()), 1..5).prop_map(|v| {
        let mut out: Vec<ColDef> = Vec::new();
        for (i, (mut c, sel)) in v.into_iter().enumerate() {
            coerce_core(&mut c);
            // a foreign-key annotation points at one of the history's own
            // table names (which may exist, be dropped later, or never exist)
            if let Some((t, _)) = c.fk.as_mut() {
                *t = HT[sel as usize % HT.len()].to_string();
            }
            // distinct names from the shared pool of names
            let mut k = crate::seq::pick(sel, HC.len());
            while out.iter().any(|o| o.name == HC[k]) {
                k = (k + 1) % HC.len();
            }
            c.name = HC[k].to_string();
            if i == 0 {
                c.key = true;
            }
            out.push(c);
        }
        out
    });
    let step = prop_oneof![
        6 => (0u8..4, cols).prop_map(|(t, cols)| HStep::Create { t, cols }),
        4 => (0u8..4).prop_map(|t| HStep::Drop { t }),
        3 => (0u8..3).prop_map(|close| HStep::Reopen { close }),
        3 => (0u8..4, any::<u8>()).prop_map(|(t, like)| HStep::CreateLike { t, like }),
        6 => (0u8..5, any::<u8>(), any::<u8>()).prop_map(|(kind, sel, n)| HStep::Traffic { kind, sel, n }),
    ];
    prop::collection::vec(step, 2..12).prop_map(|steps| HistCase { steps })
}

fn case_strategy() -> impl Strategy<Value = Case> {
    let ncols = prop_oneof![6 => 1usize..7, 2 => 7usize..31, 1 => Just(31usize), 2 => Just(32usize)];
    let name_len = prop_oneof![8 => 1usize..12, 1 => Just(31usize), 1 => Just(32usize), 1 => Just(33usize), 1 => Just(64usize)];
    let tlen = prop_oneof![8 => 1usize..12, 1 => Just(30usize), 1 => Just(31usize), 1 => Just(32usize), 1 => Just(33usize), 1 => Just(60usize)];
    (ncols, tlen, any::<u8>(), any::<usize>(), prop::bool::weighted(0.7))
        .prop_flat_map(move |(n, tlen, close, salt, core)| (prop::collection::vec((col_strategy(), name_len.clone()), n), Just(tlen), Just(close), Just(salt), Just(core)))
        .prop_map(|(cols, tlen, close, salt, core)| {
            let mut out: Vec<ColDef> = Vec::new();
            let tlen = if core { tlen.min(31) } else { tlen };
            for (i, (mut c, len)) in cols.into_iter().enumerate() {
                let len = if core { len.min(32) } else { len };
                if core {
                    // 70 % of the cases are coerced into the representable core
                    coerce_core(&mut c);
                }
                c.name = ident_of_len(len.max(1), salt % 1000 + i * 31);
                if i == 0 {
                    c.key = true;
                }
                if out.iter().any(|o: &ColDef| o.name == c.name) {
                    c.name = format!("{}{}", &c.name[..c.name.len().min(28)], i);
                }
                out.push(c);
            }
            Case { table: ident_of_len(tlen, salt % 977 + 5), cols: out, close }
        })
}

pub fn run(ctx: &Ctx) -> Report {
    let mut rep = Report::new(
        "exploration",
        "column lists of 1..32 columns over every builder option: integer and string types, string widths over 0..65535 weighted on {0,1,255,256,511,512,0x7ff,0x800,65535}, all 26 categories, enumerations (plain, with ';', with an empty member, joined length around 255), ranges including the extreme integers, foreign-key annotations (valid and not), every flag combination, table names of 1..60 and column names of 1..64 characters; plus histories of 2..11 steps (create / drop / reopen over 4 table names and a pool of 10 column names that overlap with each other and with the strings creation writes into _Validation, and row traffic — batch inserts, multi-row and single-row updates, deletes — on an auxiliary table whose cell texts are those same catalog strings, so that the pool entries behind the schema gain and lose references), compared after every step and after a final save + reopen. Oracle: if create_table returns Ok, the schema reported immediately and after save + reopen (all three close modes) equals the one created, and the independent decoder finds the same definition in _Columns (type-word bits) and _Validation (nullable, range, foreign key, category, set); definitions inside the representable core must be accepted. Non-trivial = an accepted definition with at least one non-default attribute; distinct by definition.",
    );
    rep.assumptions.push("refusal is never demanded outside the clearly unrepresentable set: the oracle is 'accepted => exact'".into());
    let mut st = Stats::new();
    let v = search(ctx, "schema", ctx.tier.pick(100_000, 1_000_000), case_strategy, |c: &Case, st| {
        st.eval();
        if st.wants_sample() && st.evaluations % 43 == 2 {
            st.sample(json!({"table": c.table, "columns": c.cols.iter().map(|x| format!("{}:{:?}", x.name, x.ty)).collect::<Vec<_>>()}));
        }
        check_case(c, st)
    }, &mut st);
    rep.push(v);
    let v = search(ctx, "history", ctx.tier.pick(40_000, 400_000), hist_strategy, |c: &HistCase, st| {
        st.eval();
        check_hist(c, st)
    }, &mut st);
    rep.push(v);
    rep.stats = st;
    rep
}

pub fn replay(_ctx: &Ctx, doc: &J) -> Check {
    let mut st = Stats::new();
    match doc["kind"].as_str().unwrap_or("") {
        "history" => check_hist(&serde_json::from_value::<HistCase>(doc["case"].clone()).map_err(|e| Fail::new(format!("{P} bad-replay"), e.to_string()))?, &mut st),
        "schema" => check_case(&serde_json::from_value::<Case>(doc["case"].clone()).map_err(|e| Fail::new(format!("{P} bad-replay"), e.to_string()))?, &mut st),
        k => Err(Fail::new(format!("{P} bad-replay"), format!("unknown case kind {k:?}"))),
    }
}
