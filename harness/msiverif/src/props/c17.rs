//! C17 — language codes and tags map consistently.
//!
//! Exhaustive over all 65,536 codes and all tags the table can produce, a
//! fixed list of identifier/tag pairs from the Windows LCID reference,
//! bounded-exhaustive short tag strings and generated tag strings.

use crate::engine::{par_enumerate, search, Check, Ctx, Fail, Report, Stats};
use msi::Language;
use proptest::prelude::*;
use serde_json::{json, Value as J};
use std::collections::{BTreeMap, BTreeSet};

const P: &str = "C17";

/// Identifier/tag pairs from the Windows language-identifier reference
/// (MS-LCID), restricted to entries that are beyond dispute.
pub const WELL_KNOWN: &[(u16, &str)] = &[
    (1033, "en-US"), (2057, "en-GB"), (3081, "en-AU"), (4105, "en-CA"),
    (1036, "fr-FR"), (3084, "fr-CA"), (1031, "de-DE"), (2055, "de-CH"),
    (1041, "ja-JP"), (1042, "ko-KR"), (1040, "it-IT"), (2058, "es-MX"),
    (1057, "id-ID"), (1046, "pt-BR"), (2070, "pt-PT"), (1049, "ru-RU"),
    (1043, "nl-NL"), (1053, "sv-SE"), (1030, "da-DK"), (1035, "fi-FI"),
    (1044, "nb-NO"), (1045, "pl-PL"), (1029, "cs-CZ"), (1038, "hu-HU"),
    (1032, "el-GR"), (1055, "tr-TR"), (1037, "he-IL"), (1025, "ar-SA"),
    (1054, "th-TH"), (1058, "uk-UA"),
    // regional variants whose sublanguage is not the first one, and further
    // first-sublanguage entries (same reference); only tags the library's
    // table contains at all: the property lets an identifier the table does
    // not know (zh-CN, zh-TW, nn-NO, hr-HR, ...) fall back to the bare language, and
    // none whose assignment the reference itself splits by sort order (es-ES)
    (2108, "ga-IE"), (2060, "fr-BE"), (4108, "fr-CH"), (3079, "de-AT"), (2064, "it-CH"),
    (2067, "nl-BE"), (2077, "sv-FI"), (3076, "zh-HK"), (4100, "zh-SG"),
    (6153, "en-IE"), (5129, "en-NZ"), (7177, "en-ZA"), (16393, "en-IN"), (3073, "ar-EG"),
    (1048, "ro-RO"), (1026, "bg-BG"), (1051, "sk-SK"), (1060, "sl-SI"), (1061, "et-EE"),
    (1062, "lv-LV"), (1063, "lt-LT"), (1081, "hi-IN"), (1066, "vi-VN"), (1027, "ca-ES"), (1069, "eu-ES"),
    (1039, "is-IS"), (1078, "af-ZA"), (1106, "cy-GB"), (1082, "mt-MT"), (1134, "lb-LU"), (1153, "mi-NZ"),
    (1086, "ms-MY"), (1065, "fa-IR"), (1089, "sw-KE"),
    // bare language identifiers (primary language, neutral sublanguage)
    (9, "en"), (12, "fr"), (7, "de"), (17, "ja"), (10, "es"), (22, "pt"),
];

fn primary(tag: &str) -> &str {
    tag.split('-').next().unwrap_or("")
}

/// Law for one code.
fn check_code(code: u16) -> Check {
    let lang = Language::from_code(code);
    if lang.code() != code {
        return Err(Fail::new(
            format!("{P} code-not-preserved code={code}"),
            format!("from_code({code}).code() = {}", lang.code()),
        ));
    }
    let tag = lang.tag().to_string();
    let bare = Language::from_code(code & 0x3ff).tag().to_string();
    // 'und' for an unknown language, the bare tag for an unknown sublanguage,
    // otherwise a regional variant of that very language.
    if bare == "und" {
        if tag != "und" {
            return Err(Fail::new(
                format!("{P} unknown-language-tag code={code}"),
                format!("primary language {} is unknown (tag 'und') but code {code} has tag {tag:?}", code & 0x3ff),
            ));
        }
    } else if !(tag == bare || (tag.starts_with(&bare) && tag[bare.len()..].starts_with('-'))) {
        return Err(Fail::new(
            format!("{P} tag-of-other-language code={code}"),
            format!("code {code} has tag {tag:?} but its primary language has tag {bare:?}"),
        ));
    }
    if bare.contains('-') {
        return Err(Fail::new(
            format!("{P} bare-tag-has-region lang={}", code & 0x3ff),
            format!("neutral code {} has tag {bare:?}", code & 0x3ff),
        ));
    }
    // tag -> language -> tag is the identity on tags the table produces
    let back = Language::from_tag(&tag);
    let tag2 = back.tag().to_string();
    if tag2 != tag {
        return Err(Fail::new(
            format!("{P} tag-roundtrip tag={tag}"),
            format!("tag({code}) = {tag:?}; from_tag({tag:?}) has code {} and tag {tag2:?}", back.code()),
        ));
    }
    // a regional tag is carried by exactly one code: an unknown sublanguage
    // must read as the bare language tag, not as some known variant
    if tag != bare && tag != "und" && back.code() != code {
        return Err(Fail::new(
            format!("{P} regional-tag-on-other-code tag={tag}"),
            format!("code {code} ({code:#06x}) has the regional tag {tag:?}, but that tag belongs to code {} ({:#06x}); an unknown sublanguage must give the bare tag {bare:?}", back.code(), back.code()),
        ));
    }
    // code -> tag -> code is stable from the second step on
    let again = Language::from_tag(&tag2);
    if again.code() != back.code() {
        return Err(Fail::new(
            format!("{P} code-unstable tag={tag}"),
            format!("from_tag({tag:?}) gives {} then {}", back.code(), again.code()),
        ));
    }
    Ok(())
}

/// Law for one arbitrary tag string, given the table as observed through
/// `tag()` (`tags`: tag -> set of codes having it; `bares`: bare tag -> lang id).
fn check_tag(
    tag: &str,
    tags: &BTreeMap<String, BTreeSet<u16>>,
    bares: &BTreeMap<String, u16>,
) -> Check {
    let lang = Language::from_tag(tag);
    let code = lang.code();
    let out = lang.tag().to_string();
    let prim = primary(tag);
    match bares.get(prim) {
        None => {
            // unknown language => neutral language
            if code != 0 {
                return Err(Fail::new(
                    format!("{P} unknown-language-not-neutral tag={tag}"),
                    format!("from_tag({tag:?}).code() = {code}, expected 0"),
                ));
            }
        }
        Some(&lang_id) => {
            if code & 0x3ff != lang_id {
                return Err(Fail::new(
                    format!("{P} wrong-primary-language tag={tag}"),
                    format!("from_tag({tag:?}).code() = {code}, primary language should be {lang_id}"),
                ));
            }
            if tag == prim {
                // a bare table tag maps to its own code
                if code != lang_id || out != tag {
                    return Err(Fail::new(
                        format!("{P} bare-tag-own-code tag={tag}"),
                        format!("from_tag({tag:?}) = code {code}, tag {out:?}; expected code {lang_id}"),
                    ));
                }
            } else if let Some(codes) = tags.get(tag) {
                // a regional table tag maps to its own code and back
                if !codes.contains(&code) || out != tag {
                    return Err(Fail::new(
                        format!("{P} table-tag-own-code tag={tag}"),
                        format!("from_tag({tag:?}) = code {code}, tag {out:?}; codes carrying that tag: {codes:?}"),
                    ));
                }
            } else {
                // known language, unknown region: never another region's code
                if out != prim && out != tag {
                    return Err(Fail::new(
                        format!("{P} unknown-region-maps-to-variant lang={prim}"),
                        format!("from_tag({tag:?}) = code {code}, whose tag is {out:?} (a different, known regional variant)"),
                    ));
                }
            }
        }
    }
    Ok(())
}

fn check_pair(code: u16, tag: &str) -> Check {
    let got = Language::from_code(code).tag().to_string();
    if got != tag {
        return Err(Fail::new(
            format!("{P} well-known-pair code={code}"),
            format!("from_code({code}).tag() = {got:?}, the Windows reference says {tag:?}"),
        ));
    }
    let back = Language::from_tag(tag).code();
    if back != code {
        return Err(Fail::new(
            format!("{P} well-known-pair tag={tag}"),
            format!("from_tag({tag:?}).code() = {back}, the Windows reference says {code}"),
        ));
    }
    Ok(())
}

fn table() -> (BTreeMap<String, BTreeSet<u16>>, BTreeMap<String, u16>) {
    let mut tags: BTreeMap<String, BTreeSet<u16>> = BTreeMap::new();
    let mut bares: BTreeMap<String, u16> = BTreeMap::new();
    for code in 0..=u16::MAX {
        let t = Language::from_code(code).tag().to_string();
        tags.entry(t.clone()).or_default().insert(code);
        if code <= 0x3ff && t != "und" {
            bares.entry(t).or_insert(code);
        }
    }
    (tags, bares)
}

/// The place where language identifiers are stored: the language list of the
/// summary information.  256 consecutive codes starting at `first` are set,
/// read back, saved, reopened and read back again; every code is preserved.
fn check_stored(first: u16) -> Check {
    use msi::{Package, PackageType};
    let codes: Vec<u16> = (0..256u32).map(|i| (first as u32 + i) as u16).collect();
    let langs: Vec<Language> = codes.iter().map(|c| Language::from_code(*c)).collect();
    let mut pkg = Package::create(PackageType::Installer, std::io::Cursor::new(Vec::new())).map_err(|e| Fail::new(format!("{P} unexpected-error op=Create"), e.to_string()))?;
    pkg.summary_info_mut().set_languages(&langs);
    let read = |pkg: &Package<std::io::Cursor<Vec<u8>>>| -> Vec<u16> { pkg.summary_info().languages().iter().map(|l| l.code()).collect() };
    let now = read(&pkg);
    if now != codes {
        let at = now.iter().zip(codes.iter()).position(|(a, b)| a != b).unwrap_or(now.len().min(codes.len()));
        return Err(Fail::new(format!("{P} stored-code-lost when=immediately"), format!("set_languages of the codes {first}..{} reads back {} codes; first difference at position {at}: {:?} instead of {:?}", first as u32 + 255, now.len(), now.get(at), codes.get(at))));
    }
    let cur = pkg.into_inner().map_err(|e| Fail::new(format!("{P} unexpected-error op=IntoInner"), e.to_string()))?;
    let pkg = Package::open(std::io::Cursor::new(cur.into_inner())).map_err(|e| Fail::new(format!("{P} unexpected-error op=Reopen"), e.to_string()))?;
    let after = read(&pkg);
    if after != codes {
        let at = after.iter().zip(codes.iter()).position(|(a, b)| a != b).unwrap_or(after.len().min(codes.len()));
        return Err(Fail::new(format!("{P} stored-code-lost when=after-reopen"), format!("the language list {first}..{} reopens with {} codes; first difference at position {at}: {:?} instead of {:?}", first as u32 + 255, after.len(), after.get(at), codes.get(at))));
    }
    Ok(())
}

pub fn run(ctx: &Ctx) -> Report {
    let mut rep = Report::new(
        "exploration",
        "all 65,536 codes (exhaustive); every tag the table produces x {itself, unknown regions, regions of other languages, empty region}; fixed Windows LCID pairs; all strings of length <= 3 over [a-zA-Z-] (<= 4 in thorough) and generated tag-shaped strings. Non-trivial = a code whose primary language is known, a tag whose primary language is known, or a fixed pair; distinct by the code / string itself.",
    );
    rep.assumptions.push("the table is documented as incomplete: missing entries are not violations, only present-but-wrong ones".into());
    let mut st = Stats::new();

    // 1. all codes
    let codes: Vec<u16> = (0..=u16::MAX).collect();
    let v = par_enumerate(ctx, "code", &codes, |&c, st| {
        st.eval();
        let r = check_code(c);
        let known = Language::from_code(c & 0x3ff).tag() != "und";
        if known {
            st.nontrivial(&("code", c));
            st.class("code:known-language");
            if c % 4099 == 33 {
                st.sample(json!({"code": c, "tag": Language::from_code(c).tag()}));
            }
        } else {
            st.class("code:unknown-language");
        }
        r
    }, &mut st);
    rep.push(v);

    // 2. fixed pairs
    for &(code, tag) in WELL_KNOWN {
        st.eval();
        st.nontrivial(&("pair", code));
        st.class("pair");
        if let Err(f) = crate::engine::no_panic(P, "pair", || check_pair(code, tag)).and_then(|r| r) {
            if ctx.is_known(&f.sig) {
                st.excluded_known += 1;
            } else {
                rep.violations.push(crate::engine::Violation {
                    sig: f.sig,
                    detail: f.detail,
                    case: json!({"kind": "pair", "case": [code, tag]}),
                });
                break;
            }
        }
    }
    st.sample(json!({"pair": [1033, "en-US"]}));

    // 2b. every code through the summary information's language list
    let firsts: Vec<u16> = (0..256u32).map(|i| (i * 256) as u16).collect();
    let v = par_enumerate(ctx, "stored", &firsts, |f, st| {
        st.eval();
        st.nontrivial(&("stored", *f));
        st.class("stored:256-codes");
        check_stored(*f)
    }, &mut st);
    rep.push(v);

    // 3. tags: table tags and their perturbations
    let (tags, bares) = table();
    let mut tag_inputs: Vec<String> = Vec::new();
    let all_regions: BTreeSet<String> = tags
        .keys()
        .filter_map(|t| t.split_once('-').map(|x| x.1.to_string()))
        .collect();
    for t in tags.keys() {
        tag_inputs.push(t.clone());
    }
    for b in bares.keys() {
        for r in ["XX", "ZZ", "", "x", "001", "Latn", "US-x", "us", "Us"] {
            tag_inputs.push(format!("{b}-{r}"));
        }
        for r in all_regions.iter() {
            tag_inputs.push(format!("{b}-{r}"));
        }
        tag_inputs.push(b.to_uppercase());
        tag_inputs.push(format!("{b}x"));
        tag_inputs.push(format!("{b}_US"));
    }
    for unk in ["xx", "zz-ZZ", "", "-", "--", "-US", "e", "En", "EN-US", "und", "und-US", "q-q-q"] {
        tag_inputs.push(unk.to_string());
    }
    // bounded-exhaustive short strings
    let alphabet: Vec<char> = ('a'..='z').chain('A'..='Z').chain(std::iter::once('-')).collect();
    let maxlen = ctx.tier.pick(3, 4);
    let mut frontier: Vec<String> = vec![String::new()];
    for _ in 0..maxlen {
        let mut next = Vec::with_capacity(frontier.len() * alphabet.len());
        for s in &frontier {
            for &c in &alphabet {
                let mut t = s.clone();
                t.push(c);
                next.push(t);
            }
        }
        tag_inputs.extend(next.iter().cloned());
        frontier = next;
    }
    let v = par_enumerate(ctx, "tag", &tag_inputs, |t, st| {
        st.eval();
        let known = bares.contains_key(primary(t));
        if known {
            st.nontrivial(&("tag", t.as_str()));
            if t.contains('-') {
                if tags.contains_key(t.as_str()) {
                    st.class("tag:table-regional");
                } else {
                    st.class("tag:known-language-unknown-region");
                    if st.classes["tag:known-language-unknown-region"] % 977 == 1 {
                        st.sample(json!({"tag": t, "code": Language::from_tag(t).code()}));
                    }
                }
            } else {
                st.class("tag:table-bare");
            }
        } else {
            st.class("tag:unknown-language");
        }
        check_tag(t, &tags, &bares)
    }, &mut st);
    rep.push(v);

    // 4. generated tag-shaped strings
    let bare_list: Vec<String> = bares.keys().cloned().collect();
    let cases = ctx.tier.pick(40_000, 2_000_000);
    let v = search(
        ctx,
        "tag",
        cases,
        || {
            let bl = bare_list.clone();
            prop_oneof![
                3 => (any::<prop::sample::Index>(), "[A-Za-z0-9]{0,4}").prop_map(move |(i, r)| format!("{}-{}", bl[i.index(bl.len())], r)),
                1 => "[a-z]{1,3}(-[A-Za-z]{0,4}){0,2}",
                1 => "\\PC{0,6}",
            ]
        },
        |t: &String, st| {
            st.eval();
            if bares.contains_key(primary(t)) {
                st.nontrivial(&("tag", t.as_str()));
                st.class("gen:known-language");
            } else {
                st.class("gen:unknown-language");
            }
            check_tag(t, &tags, &bares)
        },
        &mut st,
    );
    rep.push(v);

    st.exhaustive = Some(true);
    rep.extra.insert("exhaustive_over".into(), json!("all 65,536 language codes; all tags in the table"));
    rep.stats = st;
    rep
}

pub fn replay(_ctx: &Ctx, doc: &J) -> Check {
    let kind = doc["kind"].as_str().unwrap_or("");
    let case = &doc["case"];
    match kind {
        "code" => check_code(case.as_u64().unwrap_or(0) as u16),
        "stored" => check_stored(case.as_u64().unwrap_or(0) as u16),
        "pair" => check_pair(case[0].as_u64().unwrap_or(0) as u16, case[1].as_str().unwrap_or("")),
        "tag" => {
            let (tags, bares) = table();
            check_tag(case.as_str().unwrap_or(""), &tags, &bares)
        }
        _ => Err(Fail::new(format!("{P} bad-replay"), format!("unknown case kind {kind:?}"))),
    }
}
