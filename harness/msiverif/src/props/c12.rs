//! C12 — joins and projections produce the documented row combinations.

use crate::engine::{search, Check, Ctx, Fail, Report, Stats};
use crate::refeval::{build, eval_ref, Bin, E, V};
use crate::seq::pick;
use msi::{Column, Insert, Package, PackageType, Select};
use proptest::prelude::*;
use serde::{Deserialize, Serialize};
use serde_json::{json, Value as J};
use std::io::Cursor;

const P: &str = "C12";

#[derive(Clone, Debug, Serialize, Deserialize, Hash, PartialEq, Eq)]
pub struct CondSeed {
    pub kind: u8,
    pub a: u16,
    pub b: u16,
    pub lit: u8,
}

#[derive(Clone, Debug, Serialize, Deserialize, Hash, PartialEq, Eq)]
pub enum Src {
    Table(u8),
    Join { left: bool, l: Box<Q>, r: Box<Q>, on: CondSeed },
}

#[derive(Clone, Debug, Serialize, Deserialize, Hash, PartialEq, Eq)]
pub struct Q {
    pub src: Src,
    /// projection: selectors into the result columns (empty = all)
    pub proj: Vec<u16>,
    pub cond: Option<CondSeed>,
    /// 0 none; 1 unknown column in projection; 2 in filter; 3 in ON (joins); 4 unknown table
    pub inject: u8,
}

#[derive(Clone, Debug, Serialize, Deserialize, Hash, PartialEq, Eq)]
pub struct Case {
    /// rows per table: (k, x/y/ref selector, s selector)
    pub data: [Vec<(u8, u8, u8)>; 3],
    pub q: Q,
}

const TABLES: [&str; 3] = ["A", "B", "C.d"];
const COLS: [[&str; 3]; 3] = [["k", "x", "s"], ["k", "y", "s"], ["id", "ref.x", "t"]];

fn int_of(sel: u8) -> V {
    match sel % 5 {
        0 => V::Null,
        n => V::Int(n as i32 - 1),
    }
}
fn str_of(sel: u8, lossy: bool) -> V {
    match (sel % 4, lossy) {
        (0, _) => V::Null,
        // two different texts that a single-byte database code page stores
        // as the same "?" (in two string-pool entries)
        (1, true) => V::Str("\u{4e00}".into()),
        (2, true) => V::Str("\u{4e01}".into()),
        (1, false) => V::Str("a".into()),
        (2, false) => V::Str("b".into()),
        _ => V::Str("ab".into()),
    }
}

/// One case in four stores its strings under Windows-1252 and reopens the
/// package before querying: equal texts then sit in different pool entries.
fn lossy_mode(case: &Case) -> bool {
    case.data[0].first().map_or(false, |r| r.0 >= 192)
}

fn table_rows(data: &[(u8, u8, u8)], lossy: bool) -> Vec<Vec<V>> {
    let mut rows: Vec<Vec<V>> = Vec::new();
    for (k, a, s) in data.iter().take(6) {
        let key = V::Int((*k % 6) as i32);
        if rows.iter().any(|r| r[0] == key) {
            continue;
        }
        rows.push(vec![key, int_of(*a), str_of(*s, lossy)]);
    }
    rows.sort();
    rows
}

/// A relation as the reference executor sees it.
#[derive(Clone, Debug)]
struct Rel {
    name: String,
    cols: Vec<String>,
    nullable: Vec<bool>,
    rows: Vec<Vec<V>>,
}

#[derive(Debug)]
enum RefErr {
    /// the query must be rejected with an error
    MustFail(String),
    /// the query refers to a duplicated column name: resolution undocumented
    Ambiguous,
}

fn resolve_cond(seed: &CondSeed, left: &[String], right: &[String]) -> E {
    // `left` / `right`: column names of the two sides (for filters both are the
    // same list)
    let lit = |sel: u8| -> E {
        E::Lit(match sel % 6 {
            0 => V::Int(0),
            1 => V::Int(1),
            2 => V::Int(2),
            3 => V::Str("a".into()),
            4 => V::Str("b".into()),
            _ => V::Null,
        })
    };
    let l = || E::Col(left[pick(seed.a, left.len())].clone());
    let r = || E::Col(right[pick(seed.b, right.len())].clone());
    let l2 = || E::Col(left[pick(seed.b, left.len())].clone());
    // kinds from 225 up: conditions whose value is not 0 / 1 but any integer,
    // string or null (a bit test, a sum, a product, the bare cell, its
    // negation): what counts is their truth value
    if seed.kind >= 225 {
        return match (seed.kind - 225) % 8 {
            0 => E::bin(Bin::BitAnd, l(), r()),
            1 => E::bin(Bin::Add, l(), r()),
            2 => l(),
            3 => r(),
            4 => E::bin(Bin::Mul, l(), lit(seed.lit)),
            5 => E::bin(Bin::BitOr, l(), lit(seed.lit)),
            6 => E::un(crate::refeval::Un::Neg, r()),
            _ => E::bin(Bin::Sub, l(), r()),
        };
    }
    match seed.kind % 9 {
        0 | 1 | 2 => E::bin(Bin::Eq, l(), r()),
        3 => E::bin(Bin::Ne, l(), r()),
        4 => E::bin(Bin::And, E::bin(Bin::Eq, l(), r()), E::bin(Bin::Ne, l2(), lit(seed.lit))),
        5 => E::bin(Bin::Or, E::bin(Bin::Eq, l(), r()), E::bin(Bin::Eq, l2(), lit(seed.lit))),
        6 => E::Lit(V::Int(1)),
        7 => E::Lit(V::Int(0)),
        _ => E::bin(Bin::Eq, l(), lit(seed.lit)),
    }
}

fn holds(e: &E, cols: &[String], row: &[V]) -> Result<Option<bool>, RefErr> {
    let mut used = Vec::new();
    e.columns(&mut used);
    for u in &used {
        if !cols.iter().any(|c| c == u) {
            return Err(RefErr::MustFail(format!("unknown column {u:?}")));
        }
    }
    // a duplicated name (plain self-joins) denotes the first column carrying
    // it, as Table::get_column / Row's index do throughout the API
    let lookup = |c: &str| -> V { cols.iter().position(|x| x == c).map(|i| row[i].clone()).unwrap_or(V::Null) };
    let acc = eval_ref(e, &lookup);
    let t: Vec<bool> = acc.iter().map(|v| v.truthy()).collect();
    Ok(if t.iter().all(|x| *x) {
        Some(true)
    } else if t.iter().all(|x| !*x) {
        Some(false)
    } else {
        None
    })
}

fn check_names(e: &E, cols: &[String]) -> Result<(), RefErr> {
    let mut used = Vec::new();
    e.columns(&mut used);
    for u in &used {
        if !cols.iter().any(|c| c == u) {
            return Err(RefErr::MustFail(format!("unknown column {u:?}")));
        }
    }
    Ok(())
}

/// Reference execution; also builds the library query alongside so that the
/// late-bound names are identical.
/// A real column name with the case of its last letter flipped: names are
/// case-sensitive, so this is an unknown name one keystroke from a known one.
fn miscase(name: &str) -> String {
    let mut cs: Vec<char> = name.chars().collect();
    if let Some(i) = cs.iter().rposition(|c| c.is_ascii_alphabetic()) {
        cs[i] = if cs[i].is_ascii_lowercase() { cs[i].to_ascii_uppercase() } else { cs[i].to_ascii_lowercase() };
    }
    cs.into_iter().collect()
}

fn exec(q: &Q, db: &[Vec<Vec<V>>; 3], stats: &mut (u32, u32, bool)) -> (Result<Rel, RefErr>, Select) {
    // 1. source
    let (src, mut sel): (Result<Rel, RefErr>, Select) = match &q.src {
        Src::Table(i) => {
            let ti = (*i % 3) as usize;
            if q.inject == 4 {
                (Err(RefErr::MustFail("unknown table".into())), Select::table("NoSuchTable"))
            } else {
                (
                    Ok(Rel { name: TABLES[ti].to_string(), cols: COLS[ti].iter().map(|c| c.to_string()).collect(), nullable: vec![false, true, true], rows: db[ti].clone() }),
                    Select::table(TABLES[ti]),
                )
            }
        }
        Src::Join { left, l, r, on } => {
            let (lr, ls) = exec(l, db, stats);
            let (rr, rs) = exec(r, db, stats);
            match (lr, rr) {
                (Ok(a), Ok(b)) => {
                    let pref = |rel: &Rel| -> Vec<String> { rel.cols.iter().map(|c| if rel.name.is_empty() { c.clone() } else { format!("{}.{}", rel.name, c) }).collect() };
                    let lc = pref(&a);
                    let rc = pref(&b);
                    let mut cols = lc.clone();
                    cols.extend(rc.iter().cloned());
                    let mut on_e = resolve_cond(on, &lc, &rc);
                    if q.inject == 3 {
                        on_e = E::bin(Bin::And, on_e, E::bin(Bin::Eq, E::Col("Nope.col".into()), E::Lit(V::Int(1))));
                    }
                    if q.inject == 7 {
                        let near = miscase(lc.first().or(rc.last()).map(|s| s.as_str()).unwrap_or("k"));
                        on_e = E::bin(Bin::And, on_e, E::bin(Bin::Eq, E::Col(near), E::Lit(V::Int(1))));
                    }
                    let sel = if *left { ls.left_join(rs, build(&on_e)) } else { ls.inner_join(rs, build(&on_e)) };
                    let mut nullable = a.nullable.clone();
                    nullable.extend(b.nullable.iter().map(|n| *n || *left));
                    let rel = (|| -> Result<Rel, RefErr> {
                        check_names(&on_e, &cols)?;
                        let mut rows = Vec::new();
                        for x in &a.rows {
                            let mut any = false;
                            for y in &b.rows {
                                let mut row = x.clone();
                                row.extend(y.iter().cloned());
                                match holds(&on_e, &cols, &row)? {
                                    Some(true) => {
                                        rows.push(row);
                                        any = true;
                                        stats.0 += 1;
                                    }
                                    Some(false) => stats.1 += 1,
                                    None => return Err(RefErr::Ambiguous),
                                }
                            }
                            if *left && !any {
                                let mut row = x.clone();
                                row.extend(std::iter::repeat(V::Null).take(b.cols.len()));
                                rows.push(row);
                                stats.2 = true;
                            }
                        }
                        Ok(Rel { name: String::new(), cols: cols.clone(), nullable, rows })
                    })();
                    (rel, sel)
                }
                (Err(e), _) | (_, Err(e)) => {
                    // still build the library query (names do not matter any more)
                    let on_e = E::Lit(V::Int(1));
                    let sel = if *left { ls.left_join(rs, build(&on_e)) } else { ls.inner_join(rs, build(&on_e)) };
                    (Err(e), sel)
                }
            }
        }
    };
    // 2. projection and filter of this select
    let rel = match src {
        Ok(r) => r,
        Err(e) => {
            if !q.proj.is_empty() {
                sel = sel.columns(&["k"]);
            }
            return (Err(e), sel);
        }
    };
    let mut proj_names: Vec<String> = q.proj.iter().take(4).map(|s| rel.cols[pick(*s, rel.cols.len())].clone()).collect();
    if q.inject == 1 {
        proj_names.push("NoSuchColumn".to_string());
    }
    if q.inject == 5 {
        proj_names.push(miscase(&rel.cols[0]));
    }
    if q.inject == 8 {
        // the identity projection: every column, in order (still a
        // projection: its result is an anonymous table)
        proj_names = rel.cols.clone();
    }
    let mut cond = q.cond.as_ref().map(|c| resolve_cond(c, &rel.cols, &rel.cols));
    if q.inject == 2 || q.inject == 6 {
        let name = if q.inject == 2 { "Missing".to_string() } else { miscase(rel.cols.last().map(|s| s.as_str()).unwrap_or("k")) };
        let bad = E::bin(Bin::Eq, E::Col(name), E::Lit(V::Int(0)));
        cond = Some(match cond {
            Some(c) => E::bin(Bin::Or, c, bad),
            None => bad,
        });
    }
    if !proj_names.is_empty() {
        sel = sel.columns(&proj_names);
    }
    if let Some(c) = &cond {
        sel = sel.with(build(c));
    }
    let out = (|| -> Result<Rel, RefErr> {
        let mut idx = Vec::new();
        for n in &proj_names {
            match rel.cols.iter().position(|c| c == n) {
                None => return Err(RefErr::MustFail(format!("unknown column {n:?} in projection"))),
                Some(i) => idx.push(i),
            }
        }
        if let Some(c) = &cond {
            check_names(c, &rel.cols)?;
        }
        let mut rows = Vec::new();
        for r in &rel.rows {
            let keep = match &cond {
                None => Some(true),
                Some(c) => holds(c, &rel.cols, r)?,
            };
            match keep {
                Some(true) => rows.push(r.clone()),
                Some(false) => {}
                None => return Err(RefErr::Ambiguous),
            }
        }
        if idx.is_empty() {
            Ok(Rel { name: rel.name.clone(), cols: rel.cols.clone(), nullable: rel.nullable.clone(), rows })
        } else {
            Ok(Rel {
                name: String::new(),
                cols: idx.iter().map(|i| rel.cols[*i].clone()).collect(),
                nullable: idx.iter().map(|i| rel.nullable[*i]).collect(),
                rows: rows.iter().map(|r| idx.iter().map(|i| r[*i].clone()).collect()).collect(),
            })
        }
    })();
    (out, sel)
}

pub fn check_case(case: &Case, st: &mut Stats) -> Check {
    let lossy = lossy_mode(case);
    let mut db: [Vec<Vec<V>>; 3] = [table_rows(&case.data[0], lossy), table_rows(&case.data[1], lossy), table_rows(&case.data[2], lossy)];
    let mut pkg = Package::create(PackageType::Installer, Cursor::new(Vec::new())).map_err(|e| Fail::new(format!("{P} unexpected-error op=Create"), e.to_string()))?;
    if lossy {
        pkg.set_database_codepage(msi::CodePage::Windows1252);
    }
    for ti in 0..3 {
        let cols = vec![Column::build(COLS[ti][0]).primary_key().int16(), Column::build(COLS[ti][1]).nullable().int32(), Column::build(COLS[ti][2]).nullable().string(8)];
        pkg.create_table(TABLES[ti], cols).map_err(|e| Fail::new(format!("{P} unexpected-error op=CreateTable"), e.to_string()))?;
        if !db[ti].is_empty() {
            pkg.insert_rows(Insert::into(TABLES[ti]).rows(db[ti].iter().map(|r| r.iter().map(|v| v.to_msi()).collect()).collect())).map_err(|e| Fail::new(format!("{P} unexpected-error op=Insert"), e.to_string()))?;
        }
    }
    if lossy {
        // the reference works on the base tables as they read after reopening
        let cur = pkg.into_inner().map_err(|e| Fail::new(format!("{P} unexpected-error op=IntoInner"), e.to_string()))?;
        pkg = Package::open(cur).map_err(|e| Fail::new(format!("{P} unexpected-error op=Reopen"), e.to_string()))?;
        for ti in 0..3 {
            let rows = pkg.select_rows(Select::table(TABLES[ti])).map_err(|e| Fail::new(format!("{P} unexpected-error op=SelectBase"), e.to_string()))?;
            db[ti] = rows.map(|r| (0..r.len()).map(|i| V::from_msi(&r[i])).collect()).collect();
        }
        st.class("lossy-code-page:duplicate-pool-texts");
    }
    let mut counters = (0u32, 0u32, false);
    let (want, sel) = exec(&case.q, &db, &mut counters);
    let text = sel.to_string();
    let got = crate::engine::catch(|| {
        pkg.select_rows(sel).map(|rows| {
            let names: Vec<String> = rows.columns().iter().map(|c| c.name().to_string()).collect();
            let nullable: Vec<bool> = rows.columns().iter().map(|c| c.is_nullable()).collect();
            let announced = rows.len();
            let data: Vec<Vec<V>> = rows.map(|r| (0..r.len()).map(|i| V::from_msi(&r[i])).collect()).collect();
            (names, nullable, announced, data)
        })
    })
    .map_err(|(loc, msg)| Fail::new(format!("{P} panic at={loc}"), format!("{text} panicked: {msg}; data: {db:?}")))?;
    match (want, got) {
        (Err(RefErr::Ambiguous), _) => {
            st.class("ambiguous-names-skipped");
            Ok(())
        }
        (Err(RefErr::MustFail(why)), Ok((names, _, _, data))) => Err(Fail::new(
            format!("{P} accepted-unknown-name"),
            format!("{text} must be rejected ({why}) but returned {} rows with columns {names:?}; data: {db:?}", data.len()),
        )),
        (Err(RefErr::MustFail(_)), Err(_)) => {
            st.class("rejected-unknown-name");
            Ok(())
        }
        (Ok(rel), Err(e)) => Err(Fail::new(format!("{P} refused-valid-query"), format!("{text} failed: {e}; expected columns {:?}; data: {db:?}", rel.cols))),
        (Ok(rel), Ok((names, nullable, announced, data))) => {
            if names != rel.cols {
                return Err(Fail::new(format!("{P} column-names"), format!("{text}: result columns {names:?}, expected {:?}", rel.cols)));
            }
            if announced != data.len() {
                return Err(Fail::new(format!("{P} length"), format!("{text}: announced {announced} rows, yielded {}", data.len())));
            }
            if data != rel.rows {
                return Err(Fail::new(format!("{P} rows"), format!("{text}: got {data:?}, expected {:?}; data: {db:?}", rel.rows)));
            }
            if nullable != rel.nullable {
                return Err(Fail::new(format!("{P} nullability"), format!("{text}: columns report nullable {nullable:?}, expected {:?}", rel.nullable)));
            }
            if matches!(case.q.src, Src::Join { .. }) || has_join(&case.q) {
                st.class("join");
                if counters.0 > 0 && counters.1 > 0 {
                    st.nontrivial(case);
                    st.class("join:matched-and-unmatched");
                }
                if counters.2 {
                    st.class("left-join:padded-row");
                }
            }
            Ok(())
        }
    }
}

fn has_join(q: &Q) -> bool {
    matches!(q.src, Src::Join { .. })
}

fn cond_seed() -> impl Strategy<Value = CondSeed> {
    (any::<u8>(), any::<u16>(), any::<u16>(), any::<u8>()).prop_map(|(kind, a, b, lit)| CondSeed { kind, a, b, lit })
}

fn q_strategy(depth: u32) -> impl Strategy<Value = Q> {
    let inject = prop_oneof![90 => Just(0u8), 1 => Just(1u8), 1 => Just(2u8), 1 => Just(3u8), 1 => Just(4u8), 1 => Just(5u8), 1 => Just(6u8), 1 => Just(7u8), 12 => Just(8u8)];
    let leaf = (0u8..3, prop::collection::vec(any::<u16>(), 0..5), prop::option::weighted(0.4, cond_seed()), inject.clone())
        .prop_map(|(t, proj, cond, inject)| Q { src: Src::Table(t), proj: if proj.len() == 2 { vec![] } else { proj }, cond, inject });
    leaf.prop_recursive(depth, 10, 2, move |inner| {
        (any::<bool>(), inner.clone(), inner, cond_seed(), prop::collection::vec(any::<u16>(), 0..5), prop::option::weighted(0.3, cond_seed()), prop_oneof![60 => Just(0u8), 1 => Just(1u8), 1 => Just(2u8), 3 => Just(3u8), 1 => Just(5u8), 1 => Just(6u8), 3 => Just(7u8)])
            .prop_map(|(left, l, r, on, proj, cond, inject)| Q { src: Src::Join { left, l: Box::new(l), r: Box::new(r), on }, proj: if proj.len() == 2 { vec![] } else { proj }, cond, inject })
    })
}

fn case_strategy(depth: u32) -> impl Strategy<Value = Case> {
    let rows = || prop::collection::vec((any::<u8>(), any::<u8>(), any::<u8>()), 0..7);
    (rows(), rows(), rows(), q_strategy(depth)).prop_map(|(a, b, c, q)| Case { data: [a, b, c], q })
}

pub fn run(ctx: &Ctx) -> Report {
    let mut rep = Report::new(
        "exploration",
        "select trees up to depth 3 (4 in thorough) over three base tables (one with a dotted name and a dotted column name), filters, projections, inner and left joins including joins of joins, ON clauses and filters whose value is no 0 / 1 but any integer, string or null (bit test, sum, difference, product, the bare cell, its negation: one condition in eight), joins of filtered and of projected sub-selects and self-joins, ON conditions over both sides' columns (late-bound to the documented table.column names), unknown table / column names (also real names with the case of one letter flipped) injected in projection, filter and ON; identity projections (every column in order); projections of up to four columns drawn with replacement (repeats, in and out of table order); table contents of 0..4 rows with nulls in join columns; one case in four stores its strings under Windows-1252 (two different unrepresentable texts become the same '?' in two pool entries) and reopens before querying, the reference then works on the base tables as read back. Oracle: reference executor (naming rule, nested-loop order, null padding and nullability in left joins, filter, projection): column names, row order, values and nullability must match; unknown names must be reported as errors (also when a side is empty); no panic. Queries that refer to a duplicated column name are skipped (resolution undocumented). Non-trivial = a join with at least one matched and one unmatched pair; distinct by (query, data).",
    );
    let mut st = Stats::new();
    let depth = ctx.tier.pick(3, 4);
    let v = search(ctx, "query", ctx.tier.pick(200_000, 2_000_000), || case_strategy(depth), |c: &Case, st| {
        st.eval();
        check_case(c, st)
    }, &mut st);
    rep.push(v);
    st.sample(json!({"example": "SELECT * FROM A LEFT JOIN (SELECT k, s FROM B WHERE y = 1) ON A.k = k"}));
    rep.stats = st;
    rep
}

pub fn replay(_ctx: &Ctx, doc: &J) -> Check {
    let mut st = Stats::new();
    match doc["kind"].as_str().unwrap_or("") {
        "query" => check_case(&serde_json::from_value::<Case>(doc["case"].clone()).map_err(|e| Fail::new(format!("{P} bad-replay"), e.to_string()))?, &mut st),
        k => Err(Fail::new(format!("{P} bad-replay"), format!("unknown case kind {k:?}"))),
    }
}
