//! C01 — everything written is read back after close and reopen.

use crate::cpref::{self, PAGES};
use crate::engine::{par_enumerate, search, Check, Ctx, Fail, Report, Stats};
use crate::media::SharedBuf;
use crate::observe::{observe, ptype_of, Snapshot};
use crate::seq::{self, close_mode, CloseMode, OpSeed, Outcome, Run, SeqCase, Weights, PLAIN};
use msi::{Column, Insert, Package, Value};
use serde::{Deserialize, Serialize};
use serde_json::{json, Value as J};
use std::io::Write;

const P: &str = "C01";

pub const W_PERSIST: Weights = Weights { create: 8, drop: 2, insert: 12, update: 6, delete: 4, select: 1, wstream: 4, rstream: 2, summary: 8, sum_cp: 2, db_cp: 2, flush: 3, reopen: 6 };
const W_MUTATE_ONLY: Weights = Weights { create: 8, drop: 2, insert: 12, update: 6, delete: 4, select: 0, wstream: 4, rstream: 2, summary: 8, sum_cp: 2, db_cp: 2, flush: 1, reopen: 0 };

fn compare(before: &Snapshot, after: &Snapshot, mode: CloseMode, trace: &str) -> Check {
    if let Some((part, what)) = before.canon().diff(&after.canon()) {
        return Err(Fail::new(
            format!("{P} reopen-differs part={part} mode={mode:?}"),
            format!("observable before closing vs after reopening differ in {part}: {what}; history: {trace}"),
        ));
    }
    Ok(())
}

/// Save and reopen twice more with no intervening change: nothing may move.
fn stability(run: &mut Run, reference: &Snapshot) -> Check {
    for mode in [CloseMode::IntoInner, CloseMode::FlushAndCopy, CloseMode::Drop] {
        let (before, after, _) = run.reopen(P, mode)?;
        if let Some((part, what)) = reference.canon().diff(&after.canon()).or_else(|| before.canon().diff(&after.canon())) {
            return Err(Fail::new(
                format!("{P} resave-differs part={part} mode={mode:?}"),
                format!("saving and reopening again with no change altered {part}: {what}; history: {}", run.trace_text()),
            ));
        }
    }
    Ok(())
}

pub fn check_seq(case: &SeqCase, st: &mut Stats, prof: &seq::Profile) -> Check {
    let mut run = Run::create(P, case.ptype, prof)?;
    let mut closes = 0;
    for op in &case.ops {
        let dirty_before = run.dirty;
        match run.apply(P, op)? {
            Outcome::Reopened(mode, before, after, _) => {
                if dirty_before > 0 {
                    closes += 1;
                }
                st.class(&format!("close:{mode:?}"));
                compare(&before, &after, mode, &run.trace_text())?;
            }
            _ => {}
        }
    }
    let mode = close_mode(case.final_close);
    let dirty_before = run.dirty;
    let (before, after, _) = run.reopen(P, mode)?;
    if dirty_before > 0 {
        closes += 1;
    }
    st.class(&format!("close:{mode:?}"));
    compare(&before, &after, mode, &run.trace_text())?;
    stability(&mut run, &after)?;
    for c in run.classes.iter() {
        st.class(c);
    }
    st.class(&format!("codepage:{}", run.model.db_cp));
    if closes > 0 {
        st.nontrivial(case);
    }
    Ok(())
}

/// Sweep: the same mutation sequence with a reopen inserted after every
/// position, in every close mode.
pub fn check_sweep(case: &SeqCase, st: &mut Stats) -> Check {
    let muts: Vec<OpSeed> = case.ops.iter().filter(|o| !matches!(o, OpSeed::Reopen(_))).take(8).cloned().collect();
    for i in 0..=muts.len() {
        for m in 0..3u8 {
            let mut ops = muts[..i].to_vec();
            ops.push(OpSeed::Reopen(m));
            ops.extend_from_slice(&muts[i..]);
            let variant = SeqCase { ptype: case.ptype, ops, final_close: case.final_close.wrapping_add(m) };
            st.eval();
            check_seq(&variant, st, &PLAIN).map_err(|f| Fail::new(f.sig, format!("[sweep: reopen after position {i}, mode {m}] {}", f.detail)))?;
        }
    }
    Ok(())
}

// ------------------------------------------------------------------------- //
// Directed cases (needle inputs a random search would not reach).

#[derive(Clone, Debug, Serialize, Deserialize, Hash)]
pub enum Directed {
    /// strings from the page's repertoire in cells and summary, that page as
    /// database and summary code page
    CodePage(i32),
    PackageType(u8),
    /// a cell holding a string of exactly this many bytes (UTF-8, ASCII)
    LongString(usize),
    IntBoundaries,
    EmptyStrings,
    SharedStrings,
    /// a string beyond 64 KiB is saved, then loses its place (0 its row is
    /// deleted, 1 the cell is updated to a text other cells hold, 2 the cell
    /// is updated to a short new text), and the package is saved again
    LongStringReleased(u8),
    /// a table with this many columns (the format's limit is 32)
    Wide(usize),
    /// a table with this many rows (its stream spans several 8 KiB buffers)
    Tall(u32),
}

fn directed(d: &Directed) -> Check {
    for mode in [CloseMode::FlushAndCopy, CloseMode::IntoInner, CloseMode::Drop] {
        directed_mode(d, mode)?;
    }
    Ok(())
}

fn directed_mode(d: &Directed, mode: CloseMode) -> Check {
    let err = |what: &str, e: std::io::Error| Fail::new(format!("{P} unexpected-error op={what}"), format!("{what} failed in directed case {d:?}: {e}"));
    let buf = SharedBuf::new(Vec::new());
    let ptype = if let Directed::PackageType(t) = d { *t } else { 0 };
    let mut pkg = Package::create(ptype_of(ptype), buf.clone()).map_err(|e| err("create", e))?;
    match d {
        Directed::CodePage(id) => {
            let page = cpref::page_by_id(*id).unwrap();
            pkg.set_database_codepage(page.cp);
            pkg.summary_info_mut().set_codepage(page.cp);
            let rep: Vec<char> = cpref::repertoire(page).into_iter().filter(|c| !c.is_control()).collect();
            pkg.create_table("T", vec![Column::build("k").primary_key().string(0), Column::build("v").nullable().string(0)]).map_err(|e| err("create_table", e))?;
            let mut rows = Vec::new();
            for (i, c) in rep.iter().enumerate() {
                rows.push(vec![Value::Str(format!("{c}{i}")), Value::Str(format!("x{c}{c}"))]);
            }
            let all: String = rep.iter().collect();
            rows.push(vec![Value::Str(all.clone()), Value::Null]);
            // strings whose encoded form starts like a byte-order mark
            for (i, b) in cpref::bom_lookalikes(page).into_iter().enumerate() {
                rows.push(vec![Value::Str(b.clone()), Value::Str(format!("{b}{i}"))]);
                if i == 0 {
                    pkg.summary_info_mut().set_title(b);
                }
            }
            pkg.insert_rows(Insert::into("T").rows(rows)).map_err(|e| err("insert", e))?;
            let non_ascii: String = rep.iter().filter(|c| !c.is_ascii()).collect();
            pkg.summary_info_mut().set_author(non_ascii.clone());
            pkg.summary_info_mut().set_subject(format!("{non_ascii}s"));
            pkg.summary_info_mut().set_comments(format!("c{non_ascii}"));
            pkg.summary_info_mut().set_creating_application(format!("{non_ascii}ab"));
            pkg.summary_info_mut().set_word_count(2);
        }
        Directed::PackageType(_) => {
            pkg.create_table("T", vec![Column::build("k").primary_key().int16()]).map_err(|e| err("create_table", e))?;
            pkg.insert_rows(Insert::into("T").row(vec![Value::Int(1)])).map_err(|e| err("insert", e))?;
        }
        Directed::LongString(n) => {
            pkg.create_table("T", vec![Column::build("k").primary_key().int16(), Column::build("v").nullable().string(0)]).map_err(|e| err("create_table", e))?;
            let s: String = (0..*n).map(|i| (b'a' + (i % 26) as u8) as char).collect();
            pkg.insert_rows(Insert::into("T").row(vec![Value::Int(1), Value::Str(s.clone())]).row(vec![Value::Int(2), Value::Str("short".into())]).row(vec![Value::Int(3), Value::Str(s)]))
                .map_err(|e| err("insert", e))?;
        }
        Directed::IntBoundaries => {
            pkg.create_table("T", vec![Column::build("k").primary_key().int32(), Column::build("s").nullable().int16(), Column::build("l").nullable().int32()]).map_err(|e| err("create_table", e))?;
            let mut rows = Vec::new();
            for (i, v) in seq::INT_BOUNDS.iter().enumerate() {
                let small = if (-32767..=32767).contains(v) { Value::Int(*v) } else { Value::Null };
                rows.push(vec![Value::Int(*v), small, Value::Int(-*v)]);
                let _ = i;
            }
            pkg.insert_rows(Insert::into("T").rows(rows)).map_err(|e| err("insert", e))?;
        }
        Directed::EmptyStrings => {
            pkg.create_table("T", vec![Column::build("k").primary_key().int16(), Column::build("v").nullable().string(8), Column::build("w").string(8)]).map_err(|e| err("create_table", e))?;
            pkg.insert_rows(Insert::into("T").row(vec![Value::Int(1), Value::Str(String::new()), Value::Str("x".into())]).row(vec![Value::Int(2), Value::Null, Value::Str(String::new())]))
                .map_err(|e| err("insert", e))?;
        }
        Directed::LongStringReleased(how) => {
            pkg.create_table("T", vec![Column::build("k").primary_key().int16(), Column::build("v").nullable().string(0)]).map_err(|e| err("create_table", e))?;
            let long: String = (0..70_000).map(|i| (b'a' + (i % 26) as u8) as char).collect();
            pkg.insert_rows(Insert::into("T").row(vec![Value::Int(1), Value::Str(long)]).row(vec![Value::Int(2), Value::Str("short".into())]).row(vec![Value::Int(3), Value::Str("later".into())])).map_err(|e| err("insert", e))?;
            pkg.flush().map_err(|e| err("flush", e))?;
            match how % 3 {
                0 => pkg.delete_rows(msi::Delete::from("T").with(msi::Expr::col("k").eq(msi::Expr::integer(1)))).map_err(|e| err("delete", e))?,
                1 => pkg.update_rows(msi::Update::table("T").set("v", Value::Str("short".into())).with(msi::Expr::col("k").eq(msi::Expr::integer(1)))).map_err(|e| err("update", e))?,
                _ => pkg.update_rows(msi::Update::table("T").set("v", Value::Str("brand new".into())).with(msi::Expr::col("k").eq(msi::Expr::integer(1)))).map_err(|e| err("update", e))?,
            }
        }
        Directed::Wide(n) => {
            let mut cols = vec![Column::build("k").primary_key().int16()];
            for i in 1..*n {
                cols.push(match i % 3 {
                    0 => Column::build(format!("c{i}")).nullable().int32(),
                    1 => Column::build(format!("c{i}")).nullable().string(0),
                    _ => Column::build(format!("c{i}")).nullable().int16(),
                });
            }
            pkg.create_table("Wide", cols).map_err(|e| err("create_table", e))?;
            let row = |k: i32| -> Vec<Value> {
                let mut r = vec![Value::Int(k)];
                for i in 1..*n {
                    r.push(match i % 3 {
                        0 => Value::Int(k * 100_000 + i as i32),
                        1 => if (i + k as usize) % 4 == 0 { Value::Null } else { Value::Str(format!("s{k}.{i}")) },
                        _ => Value::Int(i as i32 - k),
                    });
                }
                r
            };
            pkg.insert_rows(Insert::into("Wide").rows((1..=3).map(row).collect())).map_err(|e| err("insert", e))?;
        }
        Directed::Tall(n) => {
            pkg.create_table("Tall", vec![Column::build("k").primary_key().int32(), Column::build("a").nullable().int16(), Column::build("v").nullable().string(0)]).map_err(|e| err("create_table", e))?;
            let rows: Vec<Vec<Value>> = (0..*n as i32).map(|i| vec![Value::Int(i * 7 - 1000), Value::Int(i % 30_000 - 500), if i % 5 == 0 { Value::Null } else { Value::Str(format!("w{}", i % 97)) }]).collect();
            pkg.insert_rows(Insert::into("Tall").rows(rows)).map_err(|e| err("insert", e))?;
        }
        Directed::SharedStrings => {
            // one string referenced from cells of two tables and from the catalog
            pkg.create_table("Name", vec![Column::build("Name").primary_key().string(16), Column::build("v").nullable().string(16)]).map_err(|e| err("create_table", e))?;
            pkg.create_table("v", vec![Column::build("k").primary_key().string(16)]).map_err(|e| err("create_table", e))?;
            pkg.insert_rows(Insert::into("Name").row(vec![Value::Str("Name".into()), Value::Str("v".into())]).row(vec![Value::Str("v".into()), Value::Str("Name".into())])).map_err(|e| err("insert", e))?;
            pkg.insert_rows(Insert::into("v").row(vec![Value::Str("Name".into())]).row(vec![Value::Str("k".into())])).map_err(|e| err("insert", e))?;
        }
    }
    {
        let mut w = pkg.write_stream("Binary.x").map_err(|e| err("write_stream", e))?;
        w.write_all(&[1, 2, 3, 4, 5]).map_err(|e| err("write_stream", e))?;
        w.flush().map_err(|e| err("write_stream", e))?;
    }
    let before = observe(&mut pkg).map_err(|e| Fail::new(format!("{P} observer-inconsistent"), e))?;
    let bytes = match mode {
        CloseMode::FlushAndCopy => {
            pkg.flush().map_err(|e| err("flush", e))?;
            let b = buf.durable_bytes();
            drop(pkg);
            b
        }
        CloseMode::IntoInner => pkg.into_inner().map_err(|e| err("into_inner", e))?.bytes(),
        CloseMode::Drop => {
            drop(pkg);
            buf.bytes()
        }
    };
    let mut pkg2 = Package::open(std::io::Cursor::new(bytes)).map_err(|e| Fail::new(format!("{P} reopen-error mode={mode:?}"), format!("the saved file of directed case {d:?} does not open: {e}")))?;
    let after = observe(&mut pkg2).map_err(|e| Fail::new(format!("{P} observer-inconsistent"), e))?;
    compare(&before, &after, mode, &format!("directed case {d:?}"))
}

fn directed_cases(tier_thorough: bool) -> Vec<Directed> {
    let mut v: Vec<Directed> = PAGES.iter().map(|p| Directed::CodePage(p.id)).collect();
    for t in 0..3 {
        v.push(Directed::PackageType(t));
    }
    for n in seq::LONG_LENGTHS {
        v.push(Directed::LongString(n));
    }
    if tier_thorough {
        for n in [65533usize, 65538, 196608, 1 << 20] {
            v.push(Directed::LongString(n));
        }
    }
    for how in 0..3u8 {
        v.push(Directed::LongStringReleased(how));
    }
    for n in [31usize, 32] {
        v.push(Directed::Wide(n));
    }
    for n in [1_000u32, 3_000] {
        v.push(Directed::Tall(n));
    }
    v.push(Directed::IntBoundaries);
    v.push(Directed::EmptyStrings);
    v.push(Directed::SharedStrings);
    v
}

pub fn run(ctx: &Ctx) -> Report {
    let mut rep = Report::new(
        "exploration",
        "late-bound operation sequences (create/drop table, insert, update, delete, stream write/remove, the ten summary setters and clearers, database and summary code-page switches over all 26 pages, flush) with reopen points in each of the three close modes (flush + copy of the live medium = crash right after flush; into_inner; drop); a sweep driver that reruns each of its sequences with a reopen after every position in every mode; directed cases per code page (strings from the page's repertoire in cells and summary), per package type, per long-string boundary length, integer boundaries, empty strings, shared strings, tables of 31 and 32 columns, tables of 1,000 and 3,000 rows; every case ends with three more save/reopen cycles without change. Oracle: API snapshot just before closing == snapshot after Package::open(saved bytes), modulo ''==null. Non-trivial = at least one successful mutation followed by a close; distinct by hash of the op list.",
    );
    rep.assumptions.push("summary strings are drawn from the summary code page's repertoire; architecture strings contain no ';'; set_creation_time_to_now is never generated".into());
    let mut st = Stats::new();
    let thorough = ctx.tier == crate::engine::Tier::Thorough;

    // directed cases first: cheap and aimed
    let cases = directed_cases(thorough);
    let v = par_enumerate(ctx, "directed", &cases, |d, st| {
        st.evals(3);
        st.nontrivial(d);
        st.class(match d {
            Directed::CodePage(_) => "directed:codepage",
            Directed::PackageType(_) => "directed:package-type",
            Directed::LongString(_) => "directed:long-string",
            _ => "directed:other",
        });
        directed(d)
    }, &mut st);
    rep.push(v);

    let mut prof = PLAIN.clone();
    prof.allow_long = true;
    let max_ops = ctx.tier.pick(12, 40);
    let v = search(ctx, "seq", ctx.tier.pick(60_000, 600_000), || seq::seq_case(W_PERSIST, max_ops), |c: &SeqCase, st| {
        st.eval();
        if st.wants_sample() && c.ops.len() > 4 && st.evaluations % 41 == 3 {
            st.sample(json!({"ops": c.ops.iter().map(|o| o.kind()).collect::<Vec<_>>(), "ptype": c.ptype % 3}));
        }
        check_seq(c, st, &prof)
    }, &mut st);
    rep.push(v);

    let v = search(ctx, "sweep", ctx.tier.pick(1_500, 15_000), || seq::seq_case(W_MUTATE_ONLY, 9), |c: &SeqCase, st| {
        st.class("sweep");
        check_sweep(c, st)
    }, &mut st);
    rep.push(v);

    rep.stats = st;
    rep
}

pub fn replay(_ctx: &Ctx, doc: &J) -> Check {
    let kind = doc["kind"].as_str().unwrap_or("");
    let bad = |e: serde_json::Error| Fail::new(format!("{P} bad-replay"), e.to_string());
    let mut st = Stats::new();
    match kind {
        "seq" => {
            let mut prof = PLAIN.clone();
            prof.allow_long = true;
            check_seq(&serde_json::from_value::<SeqCase>(doc["case"].clone()).map_err(bad)?, &mut st, &prof)
        }
        "sweep" => check_sweep(&serde_json::from_value::<SeqCase>(doc["case"].clone()).map_err(bad)?, &mut st),
        "directed" => directed(&serde_json::from_value::<Directed>(doc["case"].clone()).map_err(bad)?),
        _ => Err(Fail::new(format!("{P} bad-replay"), format!("unknown case kind {kind:?}"))),
    }
}
