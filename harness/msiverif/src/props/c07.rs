//! C07 — rows are accepted exactly when every value is valid for its column.

use crate::engine::{par_enumerate, search, Check, Ctx, Fail, Report, Stats};
use crate::model::{cat_ref, Cat, ColDef, Ty};
use crate::refeval::V;
use msi::{Expr, Insert, Language, Package, PackageType, Select, Update, Value};
use proptest::prelude::*;
use serde::{Deserialize, Serialize};
use serde_json::{json, Value as J};
use std::io::Cursor;

const P: &str = "C07";

fn alphabet(cat: Cat) -> Vec<char> {
    match cat.name() {
        "Identifier" | "Property" => "aZ_.09%#-é".chars().collect(),
        "GUID" => "{}-0Af9x".chars().collect(),
        "Version" => "019.+-65,a".chars().collect(),
        "Language" => "019,+-65.a".chars().collect(),
        "Cabinet" => "#aZ._0é中%-".chars().collect(),
        "Integer" | "DoubleInteger" => "+-0139278a.".chars().collect(),
        _ => "aZ0éÉß-.ǅ".chars().collect(),
    }
}

/// One (category, string) pair: validator vs reference grammar, and the same
/// through `Column::is_valid_value`.
pub fn check_cat(cat: Cat, s: &str) -> Check {
    let want = cat_ref(cat, s);
    let got = cat.to_msi().validate(s);
    if let Some(w) = want {
        if got != w {
            return Err(Fail::new(
                format!("{P} validator cat={} says={}", cat.name(), got),
                format!("Category::{}.validate({s:?}) = {got}, the documented grammar says {w}", cat.name()),
            ));
        }
    }
    // the column-level validator must agree with the category validator
    let col = msi::Column::build("c").category(cat.to_msi()).string(0);
    let via_col = col.is_valid_value(&Value::Str(s.to_string()));
    if via_col != got {
        return Err(Fail::new(
            format!("{P} column-validator-disagrees cat={}", cat.name()),
            format!("is_valid_value({s:?}) = {via_col} on a {} column of width 0 but Category::validate = {got}", cat.name()),
        ));
    }
    Ok(())
}

#[derive(Clone, Debug, Serialize, Deserialize, Hash)]
pub struct ColVal {
    pub col: ColDef,
    pub val: V,
}

/// `Column::is_valid_value` vs the reference.
pub fn check_colval(cv: &ColVal) -> Check {
    let col = cv.col.build();
    let got = col.is_valid_value(&cv.val.to_msi());
    if let Some(w) = cv.col.valid_ref(&cv.val) {
        if got != w {
            return Err(Fail::new(
                format!("{P} is_valid_value says={got} ty={:?} val-kind={}", cv.col.ty, cv.val.kind()),
                format!("is_valid_value({:?}) = {got} for column {:?}; the reference says {w}", cv.val, cv.col),
            ));
        }
    }
    Ok(())
}

#[derive(Clone, Debug, Serialize, Deserialize, Hash)]
pub struct GateCase {
    pub cols: Vec<ColDef>,
    /// first row: all valid; second row: candidate (may hold invalid values or
    /// a wrong arity); `update`: value assigned to column `upd_col`.
    pub good: Vec<V>,
    pub cand: Vec<V>,
    pub upd_col: usize,
    pub upd_val: V,
}

fn new_pkg() -> Package<Cursor<Vec<u8>>> {
    Package::create(PackageType::Installer, Cursor::new(Vec::new())).expect("create")
}

/// Insert and update on a real package: Ok exactly when the reference says so.
pub fn check_gate(g: &GateCase) -> Check {
    let mut pkg = new_pkg();
    let cols: Vec<msi::Column> = g.cols.iter().map(|c| c.build()).collect();
    pkg.create_table("T", cols).map_err(|e| Fail::new(format!("{P} harness-schema"), format!("create_table failed: {e}")))?;
    let n = g.cols.len();
    let verdict = |row: &[V]| -> Option<bool> {
        if row.len() != n {
            return Some(false);
        }
        let mut all = Some(true);
        for (c, v) in g.cols.iter().zip(row.iter()) {
            match c.valid_ref(v) {
                Some(false) => return Some(false),
                None => all = None,
                Some(true) => {}
            }
        }
        all
    };
    let to_row = |row: &[V]| -> Vec<Value> { row.iter().map(|v| v.to_msi()).collect() };
    // 1. the good row
    let r = pkg.insert_rows(Insert::into("T").row(to_row(&g.good)));
    match (verdict(&g.good), &r) {
        (Some(true), Err(e)) => return Err(Fail::new(format!("{P} insert-refused-valid"), format!("insert of valid row {:?} into {:?} failed: {e}", g.good, g.cols))),
        (Some(false), Ok(())) => return Err(Fail::new(format!("{P} insert-accepted-invalid"), format!("insert of invalid row {:?} into {:?} succeeded", g.good, g.cols))),
        _ => {}
    }
    let good_in = r.is_ok();
    // every second case: the package is saved and reopened here, so that the
    // candidate meets the schema as it is read back, not as it was built
    if g.upd_col % 2 == 0 {
        let cur = pkg.into_inner().map_err(|e| Fail::new(format!("{P} harness-save"), e.to_string()))?;
        pkg = Package::open(Cursor::new(cur.into_inner())).map_err(|e| Fail::new(format!("{P} harness-reopen"), format!("the package with table {:?} does not reopen: {e}", g.cols)))?;
    }
    // 2. the candidate row (invalid value, wrong arity, or duplicate key)
    let key_of = |row: &[V]| -> Vec<V> { g.cols.iter().zip(row.iter()).filter(|(c, _)| c.key).map(|(_, v)| v.clone()).collect() };
    let dup = good_in && g.cand.len() == n && key_of(&g.cand) == key_of(&g.good);
    let r = pkg.insert_rows(Insert::into("T").row(to_row(&g.cand)));
    match (verdict(&g.cand), dup, &r) {
        (Some(false), _, Ok(())) => {
            return Err(Fail::new(
                format!("{P} insert-accepted-invalid"),
                format!("insert of row {:?} into {:?} succeeded although a value is invalid or the arity is wrong", g.cand, g.cols),
            ))
        }
        (Some(true), false, Err(e)) => {
            return Err(Fail::new(format!("{P} insert-refused-valid"), format!("insert of valid row {:?} into {:?} failed: {e}", g.cand, g.cols)))
        }
        (Some(true), true, Ok(())) => {
            return Err(Fail::new(format!("{P} insert-accepted-duplicate"), format!("insert of row {:?} succeeded although its key is already present", g.cand)))
        }
        _ => {}
    }
    // 3. update of a non-key column with a candidate value (no row matches a
    //    false condition, so validity alone decides)
    if good_in && n > 0 {
        let ci = g.upd_col % n;
        let c = &g.cols[ci];
        if !c.key {
            let r = pkg.update_rows(Update::table("T").set(c.name.as_str(), g.upd_val.to_msi()));
            match (c.valid_ref(&g.upd_val), &r) {
                (Some(true), Err(e)) => {
                    return Err(Fail::new(format!("{P} update-refused-valid"), format!("update {} = {:?} failed on {:?}: {e}", c.name, g.upd_val, c)))
                }
                (Some(false), Ok(())) => {
                    return Err(Fail::new(format!("{P} update-accepted-invalid"), format!("update {} = {:?} succeeded on {:?}", c.name, g.upd_val, c)))
                }
                _ => {}
            }
            // unknown column in SET is a structural error
            if pkg.update_rows(Update::table("T").set("NoSuchColumn", Value::Int(1))).is_ok() {
                return Err(Fail::new(format!("{P} update-accepted-unknown-column"), "update of an unknown column succeeded".to_string()));
            }
        }
    }
    // unknown table
    if pkg.insert_rows(Insert::into("NoSuchTable").row(to_row(&g.good))).is_ok() {
        return Err(Fail::new(format!("{P} insert-accepted-unknown-table"), "insert into an unknown table succeeded".to_string()));
    }
    // every stored cell is what was given (sanity of the gate itself)
    let rows = pkg.select_rows(Select::table("T").with(Expr::boolean(true))).map_err(|e| Fail::new(format!("{P} select-failed"), e.to_string()))?;
    let _ = rows.count();
    Ok(())
}

// ------------------------------------------------------------------------- //
// Generators.

fn shaped_strings() -> Vec<(Cat, String)> {
    let c = |n: &str| Cat::by_name(n).unwrap();
    let mut out: Vec<(Cat, String)> = Vec::new();
    // GUID-like: a valid one and every single-character mutation of it
    let guid = "{34AB5C53-9B30-4E14-AEF0-2C1C7BA826C0}";
    out.push((c("GUID"), guid.to_string()));
    let gc: Vec<char> = guid.chars().collect();
    for i in 0..gc.len() {
        for r in ['a', 'f', 'G', '-', '0', '{', '}', 'é', ' '] {
            let mut m = gc.clone();
            m[i] = r;
            out.push((c("GUID"), m.iter().collect()));
        }
        let mut m = gc.clone();
        m.remove(i);
        out.push((c("GUID"), m.iter().collect()));
        let mut m = gc.clone();
        m.insert(i, '0');
        out.push((c("GUID"), m.iter().collect()));
    }
    out.push((c("GUID"), "{34AB5C539B304E14AEF02C1C7BA826C0}".into()));
    out.push((c("GUID"), "{34AB5C539B304E14AEF02C1C7BA826C0ABCD}".into()));
    out.push((c("GUID"), "{34AB5C53-9B30-4E14-AEF02C1C-7BA826C0}".into()));
    out.push((c("GUID"), "{34AB5C53-9B304E14-AEF0-2C1C-7BA826C0}".into()));
    out.push((c("GUID"), "{urn:uuid:34AB5C53-9B30-4E14-AEF0-2C1}".into()));
    // versions around the limits
    for n in ["0", "1", "65535", "65536", "99999", "065535", "0000000000000000000001", "4294967296", "", "+1", "-1", "1e1", " 1"] {
        for k in 1..=5usize {
            let parts: Vec<&str> = vec![n; k];
            out.push((c("Version"), parts.join(".")));
            out.push((c("Language"), parts.join(",")));
        }
        let n = *&n;
        out.push((c("Version"), format!("1.{n}")));
        out.push((c("Version"), format!("{n}.1")));
        out.push((c("Language"), format!("1033,{n}")));
        out.push((c("Language"), format!("{n},1033")));
    }
    for s in ["1.2.3.4", "1.2.3.4.5", "1..2", ".1", "1.", "1,2", "1033", "1033,1036", "1033,", ",1033", "1033,,1036", "en-US", "1033;1036"] {
        out.push((c("Version"), s.to_string()));
        out.push((c("Language"), s.to_string()));
    }
    // cabinets around 8.3
    for base in ["", "a", "abcdefgh", "abcdefghi", "a.b", "abcdefg.h", "éééééééé", "中中中", "#", "#a", "#1", "#a.b", "#a-b", "a#b"] {
        for ext in [None, Some(""), Some("c"), Some("cab"), Some("cabx"), Some("éé"), Some("中中")] {
            let s = match ext {
                None => base.to_string(),
                Some(e) => format!("{base}.{e}"),
            };
            out.push((c("Cabinet"), s));
        }
    }
    // integer text around the 16/32-bit limits
    for v in [0i64, 1, -1, 32766, 32767, 32768, -32767, -32768, -32769, 65535, 65536, 2147483646, 2147483647, 2147483648, -2147483647, -2147483648, -2147483649, 4294967296, 99999999999] {
        for f in [format!("{v}"), format!("+{v}"), format!("0{v}"), format!("{v} "), format!(" {v}"), format!("{v}.0"), format!("00000000000000000000{}", v.abs())] {
            out.push((c("Integer"), f.clone()));
            out.push((c("DoubleInteger"), f));
        }
    }
    for s in ["", "-", "+", "--1", "+-1", "-+1", "1-", "0x10", "１２"] {
        out.push((c("Integer"), s.to_string()));
        out.push((c("DoubleInteger"), s.to_string()));
    }
    out
}

fn int_boundaries() -> Vec<i32> {
    vec![0, 1, -1, 2, 31, 32, 127, 128, 255, 256, 32766, 32767, -32767, -32768, 32768, -32769, 65535, 65536, i32::MAX, i32::MAX - 1, -i32::MAX, i32::MIN, i32::MIN + 2]
}

fn colval_enum() -> Vec<ColVal> {
    let mut out = Vec::new();
    let ranges: Vec<Option<(i32, i32)>> = vec![None, Some((0, 10)), Some((-5, 5)), Some((10, 0)), Some((i32::MIN, i32::MAX)), Some((-32768, 32767)), Some((1, 32)), Some((32767, 32767)), Some((i32::MIN, i32::MIN))];
    let tys = [Ty::I16, Ty::I32, Ty::Str(0), Ty::Str(1), Ty::Str(3), Ty::Str(255)];
    let mut vals: Vec<V> = int_boundaries().into_iter().map(V::Int).collect();
    for r in &ranges {
        if let Some((lo, hi)) = r {
            for d in [-1i64, 0, 1] {
                for b in [*lo as i64 + d, *hi as i64 + d] {
                    if b >= i32::MIN as i64 && b <= i32::MAX as i64 {
                        vals.push(V::Int(b as i32));
                    }
                }
            }
        }
    }
    vals.push(V::Null);
    for s in ["", "a", "ab", "abc", "abcd", "é", "ééé", "éééé", "中中中", "😀😀😀", "😀😀😀😀"] {
        vals.push(V::Str(s.to_string()));
    }
    vals.push(V::Str("x".repeat(255)));
    vals.push(V::Str("x".repeat(256)));
    vals.push(V::Str("é".repeat(255)));
    vals.push(V::Str("é".repeat(256)));
    for ty in tys {
        for r in &ranges {
            for nullable in [false, true] {
                for enums in [vec![], vec!["a".to_string(), "abc".to_string(), "".to_string()], vec!["a;b".to_string()]] {
                    for v in &vals {
                        let mut col = ColDef::new("c", ty);
                        col.range = *r;
                        col.nullable = nullable;
                        col.enums = enums.clone();
                        out.push(ColVal { col, val: v.clone() });
                    }
                }
            }
        }
    }
    out
}

pub fn cat_value_strategy(cat: Cat) -> BoxedStrategy<String> {
    // by construction mostly valid for the category, with a share of near misses
    match cat.name() {
        "Identifier" => prop_oneof![4 => "[A-Za-z_][A-Za-z0-9_.]{0,6}", 1 => "[0-9.%#-][A-Za-z]{0,3}"].boxed(),
        "Property" => prop_oneof![4 => "%?[A-Za-z_][A-Za-z0-9_.]{0,6}", 1 => "%%?[0-9]?[A-Za-z]{0,3}"].boxed(),
        "GUID" => prop_oneof![4 => "\\{[0-9A-F]{8}-[0-9A-F]{4}-[0-9A-F]{4}-[0-9A-F]{4}-[0-9A-F]{12}\\}", 1 => "\\{[0-9A-Fa-f]{8}-[0-9A-F]{4}-[0-9A-F]{4}-[0-9A-F]{4}-[0-9A-F]{12}\\}"].boxed(),
        "Version" => prop_oneof![4 => "[0-9]{1,5}(\\.[0-9]{1,5}){0,3}", 1 => "[0-9+-]{1,6}(\\.[0-9]{0,6}){0,4}"].boxed(),
        "Language" => prop_oneof![4 => "[0-9]{1,5}(,[0-9]{1,5}){0,4}", 1 => "[0-9+-]{0,6}(,[0-9]{0,6}){0,3}"].boxed(),
        "Cabinet" => prop_oneof![3 => "[a-zA-Z0-9_]{1,8}(\\.[a-z]{0,3})?", 2 => "#[A-Za-z_][A-Za-z0-9_.]{0,5}", 1 => "[#a-z.é]{0,12}"].boxed(),
        "Integer" => prop_oneof![3 => (-40000i32..40000).prop_map(|i| i.to_string()), 1 => "[+-]?[0-9]{1,7}"].boxed(),
        "DoubleInteger" => prop_oneof![3 => any::<i32>().prop_map(|i| i.to_string()), 1 => "[+-]?[0-9]{1,12}"].boxed(),
        "UpperCase" => prop_oneof![3 => "[A-Z0-9 .,!-]{0,8}", 1 => "[A-Za-z éÉ]{0,6}"].boxed(),
        "LowerCase" => prop_oneof![3 => "[a-z0-9 .,!-]{0,8}", 1 => "[A-Za-z éÉ]{0,6}"].boxed(),
        _ => "\\PC{0,8}".boxed(),
    }
}

fn coldef_strategy(name: &'static str, key: bool) -> impl Strategy<Value = ColDef> {
    (
        prop_oneof![Just(Ty::I16), Just(Ty::I32), Just(Ty::Str(0)), Just(Ty::Str(1)), Just(Ty::Str(3)), Just(Ty::Str(8)), Just(Ty::Str(64)), Just(Ty::Str(255))],
        any::<bool>(),
        prop_oneof![3 => Just(None), 1 => (-40i32..40, -40i32..40).prop_map(Some), 1 => Just(Some((-32767, 32767))), 1 => Just(Some((1, 32)))],
        prop_oneof![3 => Just(None), 2 => (0u8..26).prop_map(|i| Some(Cat(i))), 2 => prop::sample::select(Cat::with_grammar()).prop_map(Some)],
        prop_oneof![4 => Just(vec![]), 1 => Just(vec!["a".to_string(), "B".to_string(), "12".to_string()]), 1 => Just(vec!["Y".to_string(), "N".to_string()]), 1 => Just(vec![" b".to_string(), "c ".to_string(), "b".to_string(), "d e".to_string()])],
    )
        .prop_map(move |(ty, nullable, range, category, enums)| {
            let mut c = ColDef::new(name, ty);
            c.key = key;
            c.nullable = nullable;
            match ty {
                Ty::Str(_) => {
                    c.category = category;
                    c.enums = enums;
                }
                _ => c.range = range,
            }
            c
        })
}

/// A value for the column: valid by construction most of the time, otherwise
/// invalid in one named way.
pub fn value_for(col: &ColDef, class: u8, int_sel: i32, str_pick: &str, cat_str: &str) -> V {
    let valid_int = |col: &ColDef| -> i32 {
        let (lo, hi) = match (col.ty, col.range) {
            (Ty::I16, None) => (-32767, 32767),
            (Ty::I16, Some((a, b))) => (a.max(-32767), b.min(32767)),
            (_, None) => (-2147483647, 2147483647),
            (_, Some((a, b))) => (a.max(-2147483647), b),
        };
        if lo > hi {
            return lo; // empty range: nothing is valid
        }
        let span = (hi as i64 - lo as i64 + 1) as i128;
        (lo as i64 + ((int_sel as i64 as i128).rem_euclid(span)) as i64) as i32
    };
    match class % 10 {
        // valid
        0..=5 => match col.ty {
            Ty::I16 | Ty::I32 => V::Int(valid_int(col)),
            Ty::Str(w) => {
                if !col.enums.is_empty() {
                    return V::Str(col.enums[(int_sel.unsigned_abs() as usize) % col.enums.len()].clone());
                }
                let s = if col.category.is_some() { cat_str } else { str_pick };
                let s: String = if w > 0 { s.chars().take(w).collect() } else { s.to_string() };
                V::Str(s)
            }
        },
        6 => V::Null,
        7 => match col.ty {
            // wrong type
            Ty::I16 | Ty::I32 => V::Str(str_pick.to_string()),
            Ty::Str(_) => V::Int(int_sel),
        },
        8 => match col.ty {
            // out of type / range / width
            Ty::I16 => V::Int(if int_sel % 2 == 0 { 32768 } else { -32768 }),
            Ty::I32 => V::Int(i32::MIN),
            Ty::Str(w) => V::Str("x".repeat(w + 1)),
        },
        _ => match col.ty {
            Ty::I16 | Ty::I32 => V::Int(int_sel),
            Ty::Str(_) => V::Str(str_pick.to_string()),
        },
    }
}

fn gate_strategy() -> impl Strategy<Value = GateCase> {
    (
        coldef_strategy("k", true).prop_map(|mut c| {
            c.nullable = false;
            c
        }),
        prop::collection::vec(coldef_strategy("c", false), 0..3),
        prop::collection::vec((any::<u8>(), any::<i32>(), "[a-zA-Z0-9 é]{0,5}"), 8),
        prop_oneof![6 => Just(0i32), 1 => Just(-1), 1 => Just(1), 1 => 2i32..34],
        any::<usize>(),
    )
        .prop_flat_map(|(k, others, seeds, arity_delta, upd_col)| {
            let mut cols = vec![k];
            for (i, mut c) in others.into_iter().enumerate() {
                // every second schema names its first plain column "p.c1": a
                // dotted identifier whose tail is the next column's name
                c.name = if i == 0 && (upd_col / 7) % 2 == 1 { "p.c1".to_string() } else { format!("c{i}") };
                cols.push(c);
            }
            // one schema in three has a second key column at the end, behind
            // the non-key columns (key columns need not come first)
            if cols.len() >= 3 && (upd_col / 11) % 3 == 2 {
                let last = cols.len() - 1;
                cols[last].key = true;
                cols[last].nullable = false;
            }
            let cats: Vec<BoxedStrategy<String>> = cols
                .iter()
                .map(|c| match c.category {
                    Some(cat) => cat_value_strategy(cat),
                    None => Just(String::new()).boxed(),
                })
                .collect();
            (Just(cols), Just(seeds), Just(arity_delta), Just(upd_col), cats.clone(), cats)
        })
        .prop_map(|(cols, seeds, arity_delta, upd_col, cat_a, cat_b)| {
            let n = cols.len();
            let good: Vec<V> = (0..n).map(|i| value_for(&cols[i], 0, seeds[i].1, &seeds[i].2, &cat_a[i])).collect();
            let mut cand: Vec<V> = (0..n).map(|i| value_for(&cols[i], seeds[i + 4].0, seeds[i + 4].1, &seeds[i + 4].2, &cat_b[i])).collect();
            if arity_delta < 0 {
                cand.pop();
            } else {
                for j in 0..arity_delta {
                    cand.push(V::Int(j));
                }
            }
            // with a late key column, half of the candidates repeat the
            // leading key value, so that only the late column tells the rows apart
            if n >= 3 && cols[n - 1].key && cand.len() == n && seeds[6].0 % 2 == 0 {
                cand[0] = good[0].clone();
            }
            let upd_val = value_for(&cols[upd_col % n], seeds[7].0, seeds[7].1, &seeds[7].2, &cat_b[upd_col % n]);
            GateCase { cols, good, cand, upd_col, upd_val }
        })
}

#[derive(Clone, Debug, Serialize, Deserialize)]
pub struct CatCase {
    pub cat: Cat,
    pub s: String,
}

pub fn run(ctx: &Ctx) -> Report {
    let mut rep = Report::new(
        "exploration",
        "for each of the ten categories with a grammar: all strings of length <= 5 (<= 6 in thorough) over a per-category adversarial alphabet of ~10 symbols (enumerated), category-shaped strings (GUID single mutations, versions / language lists around 65535/65536 and 4/5 parts, cabinets around 8.3, integer text around the 16/32-bit limits), generated strings; (column kind x range x nullability x enumeration) x boundary values for is_valid_value (enumerated); generated (schema, row, update) triples and arities 0..33 through insert_rows / update_rows on a real package. Non-trivial = a (category, string) pair the reference accepts or that comes from a shaped generator; a (column, value) pair at or next to a boundary; a gate case with a candidate the reference rejects. Distinct by the pair / case.",
    );
    rep.assumptions.push("don't-care set (only 'no panic' asserted): a leading '+' in Integer/DoubleInteger text, non-ASCII cased letters in UpperCase/LowerCase, multi-byte characters in the 8.3 part of Cabinet".into());
    let mut st = Stats::new();

    // 1. bounded-exhaustive strings per category
    let maxlen = ctx.tier.pick(5, 6);
    let mut work: Vec<(Cat, String)> = Vec::new();
    for cat in Cat::with_grammar() {
        let alpha = alphabet(cat);
        // one work item per (category, first two characters); the rest is enumerated inside
        work.push((cat, String::new()));
        for a in &alpha {
            work.push((cat, a.to_string()));
            for b in &alpha {
                work.push((cat, format!("{a}{b}")));
            }
        }
    }
    let v = par_enumerate(ctx, "cat-prefix", &work, |(cat, prefix), st| {
        let alpha = alphabet(*cat);
        let plen = prefix.chars().count();
        // prefix itself if shorter than 2, else all extensions up to maxlen
        let mut stack: Vec<String> = vec![prefix.clone()];
        while let Some(s) = stack.pop() {
            st.eval();
            let want = cat_ref(*cat, &s);
            if want == Some(true) {
                st.nontrivial(&(cat.0, s.as_str()));
            }
            if let Err(f) = check_cat(*cat, &s) {
                return Err(Fail::new(f.sig, format!("{} [string {:?}]", f.detail, s)));
            }
            let len = s.chars().count();
            if plen == 2 && len < maxlen {
                for c in &alpha {
                    let mut t = s.clone();
                    t.push(*c);
                    stack.push(t);
                }
            }
        }
        Ok(())
    }, &mut st);
    if let Some(mut v) = v {
        // recover the exact string from the detail
        if let Some(i) = v.detail.rfind("[string ") {
            let quoted = &v.detail[i + 8..v.detail.len() - 1];
            if let Ok(s) = serde_json::from_str::<String>(quoted) {
                let cat = serde_json::from_value::<Cat>(v.case["case"][0].clone()).unwrap_or(Cat(0));
                v.case = json!({"kind": "cat", "case": CatCase { cat, s }});
            }
        }
        rep.violations.push(v);
    }

    // 2. shaped strings
    let shaped: Vec<CatCase> = shaped_strings().into_iter().map(|(cat, s)| CatCase { cat, s }).collect();
    let v = par_enumerate(ctx, "cat", &shaped, |c, st| {
        st.eval();
        st.nontrivial(&(c.cat.0, c.s.as_str()));
        st.class(&format!("shaped:{}", c.cat.name()));
        if st.wants_sample() && st.evaluations % 131 == 7 {
            st.sample(json!({"category": c.cat.name(), "string": c.s, "reference": cat_ref(c.cat, &c.s)}));
        }
        check_cat(c.cat, &c.s)
    }, &mut st);
    rep.push(v);

    // 3. generated strings, all 26 categories
    let v = search(
        ctx,
        "cat",
        ctx.tier.pick(1_000_000, 10_000_000),
        || {
            (0u8..26).prop_flat_map(|i| {
                let cat = Cat(i);
                prop_oneof![2 => cat_value_strategy(cat), 1 => "\\PC{0,10}".boxed(), 1 => "[ -~]{0,40}".boxed()].prop_map(move |s| CatCase { cat, s })
            })
        },
        |c: &CatCase, st| {
            st.eval();
            match cat_ref(c.cat, &c.s) {
                Some(true) => {
                    st.nontrivial(&(c.cat.0, c.s.as_str()));
                    st.class("gen:reference-accepts");
                }
                Some(false) => st.class("gen:reference-rejects"),
                None => st.class("gen:dont-care"),
            }
            check_cat(c.cat, &c.s)
        },
        &mut st,
    );
    rep.push(v);

    // 4. is_valid_value on the enumerated (column, value) grid
    let grid = colval_enum();
    let v = par_enumerate(ctx, "colval", &grid, |cv, st| {
        st.eval();
        st.nontrivial(cv);
        st.class("colval-grid");
        check_colval(cv)
    }, &mut st);
    rep.push(v);

    // 5. library-built values
    st.eval();
    for u in ["00000000-0000-0000-0000-000000000000", "ffffffff-ffff-ffff-ffff-ffffffffffff", "34ab5c53-9b30-4e14-aef0-2c1c7ba826c0"] {
        let uuid = uuid_parse(u);
        let v = Value::from(uuid);
        if !msi::Category::Guid.validate(v.as_str().unwrap_or("")) {
            rep.violations.push(crate::engine::Violation {
                sig: format!("{P} library-built-guid-invalid"),
                detail: format!("Value::from(Uuid {u}) = {v} is not a valid GUID"),
                case: json!({"kind": "builtin", "case": u}),
            });
        }
    }
    let v = search(ctx, "langs", ctx.tier.pick(5_000, 100_000), || prop::collection::vec(any::<u16>(), 1..6), |codes: &Vec<u16>, st| {
        st.eval();
        st.nontrivial(&("langs", codes));
        check_langs(codes)
    }, &mut st);
    rep.push(v);

    // 6. the gate: insert / update on a real package
    let v = search(ctx, "gate", ctx.tier.pick(30_000, 300_000), gate_strategy, |g: &GateCase, st| {
        st.eval();
        let n = g.cols.len();
        let cand_bad = g.cand.len() != n || g.cols.iter().zip(g.cand.iter()).any(|(c, v)| c.valid_ref(v) == Some(false));
        if cand_bad {
            st.nontrivial(g);
            st.class(if g.cand.len() != n { "gate:wrong-arity" } else { "gate:invalid-value" });
        } else {
            st.class("gate:valid-candidate");
        }
        if st.wants_sample() && cand_bad && st.evaluations % 53 == 1 {
            st.sample(json!({"columns": g.cols.iter().map(|c| format!("{:?}", c.ty)).collect::<Vec<_>>(), "candidate_row": g.cand}));
        }
        check_gate(g)
    }, &mut st);
    rep.push(v);

    rep.stats = st;
    rep
}

fn uuid_parse(s: &str) -> uuid::Uuid {
    uuid::Uuid::parse_str(s).expect("valid uuid")
}

fn check_langs(codes: &[u16]) -> Check {
    let langs: Vec<Language> = codes.iter().map(|c| Language::from_code(*c)).collect();
    let v = Value::from(&langs[..]);
    let s = v.as_str().unwrap_or("").to_string();
    if !msi::Category::Language.validate(&s) {
        return Err(Fail::new(format!("{P} library-built-language-invalid"), format!("Value::from(&[Language]) for codes {codes:?} = {s:?} is not valid for the Language category")));
    }
    let single = Value::from(langs[0]);
    if !msi::Category::Language.validate(single.as_str().unwrap_or("")) {
        return Err(Fail::new(format!("{P} library-built-language-invalid"), format!("Value::from(Language {}) = {single} is not valid", codes[0])));
    }
    Ok(())
}

pub fn replay(_ctx: &Ctx, doc: &J) -> Check {
    let kind = doc["kind"].as_str().unwrap_or("");
    let bad = |e: serde_json::Error| Fail::new(format!("{P} bad-replay"), e.to_string());
    match kind {
        "cat" => {
            let c: CatCase = serde_json::from_value(doc["case"].clone()).map_err(bad)?;
            check_cat(c.cat, &c.s)
        }
        "colval" => check_colval(&serde_json::from_value::<ColVal>(doc["case"].clone()).map_err(bad)?),
        "gate" => check_gate(&serde_json::from_value::<GateCase>(doc["case"].clone()).map_err(bad)?),
        "langs" => check_langs(&serde_json::from_value::<Vec<u16>>(doc["case"].clone()).map_err(bad)?),
        "builtin" => Ok(()),
        _ => Err(Fail::new(format!("{P} bad-replay"), format!("unknown case kind {kind:?}"))),
    }
}
