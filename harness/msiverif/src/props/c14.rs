//! C14 — code pages encode losslessly what they can represent and match
//! their names.  Exhaustive over scalars x pages, 1/2-byte sequences x pages
//! and identifiers; generated strings across the 1024-byte buffer boundary.

use crate::cpref::{Page, PAGES};
use crate::engine::{par_enumerate, search, Check, Ctx, Fail, Report, Stats};
use msi::CodePage;
use proptest::prelude::*;
use serde_json::{json, Value as J};

const P: &str = "C14";

fn hex(b: &[u8]) -> String {
    b.iter().map(|x| format!("{:02X}", x)).collect::<Vec<_>>().join("")
}

fn check_scalar(page: &Page, c: char) -> Check {
    let mut tmp = [0u8; 4];
    let s: &str = c.encode_utf8(&mut tmp);
    let enc = page.cp.encode(s);
    // law 1: '?' or round trip
    if enc != b"?" {
        let dec = page.cp.decode(&enc);
        if dec != s {
            return Err(Fail::new(
                format!("{P} roundtrip cp={} scalar=U+{:04X}", page.id, c as u32),
                format!("encode(U+{:04X}) = {} which decodes to {:?}", c as u32, hex(&enc), dec),
            ));
        }
    }
    // law 3: agrees with the encoding named by the page's documentation
    let want = page.encode(s);
    if enc != want {
        return Err(Fail::new(
            format!("{P} oracle-encode cp={} scalar=U+{:04X}", page.id, c as u32),
            format!("encode(U+{:04X}) = {} but {} gives {}", c as u32, hex(&enc), page.label.unwrap_or("US-ASCII"), hex(&want)),
        ));
    }
    Ok(())
}

fn check_bytes(page: &Page, b: &[u8]) -> Check {
    let got = page.cp.decode(b);
    let want = page.decode(b);
    if got != want {
        return Err(Fail::new(
            format!("{P} oracle-decode cp={} bytes={}", page.id, hex(&b[..b.len().min(4)])),
            if b.len() <= 40 {
                format!("decode({}) = {:?} but {} gives {:?}", hex(b), got, page.label.unwrap_or("US-ASCII"), want)
            } else {
                let at = got.chars().zip(want.chars()).position(|(x, y)| x != y).unwrap_or(got.chars().count().min(want.chars().count()));
                format!(
                    "decode of {} bytes starting {}... differs from {} at character {at}: {:?} vs {:?}",
                    b.len(),
                    hex(&b[..16]),
                    page.label.unwrap_or("US-ASCII"),
                    got.chars().skip(at.saturating_sub(2)).take(6).collect::<String>(),
                    want.chars().skip(at.saturating_sub(2)).take(6).collect::<String>()
                )
            },
        ));
    }
    Ok(())
}

fn check_string(page: &Page, s: &str) -> Check {
    let got = page.cp.encode(s);
    // compositionality against the library's own per-character encoding
    let mut concat = Vec::with_capacity(got.len());
    let mut tmp = [0u8; 4];
    for c in s.chars() {
        concat.extend_from_slice(&page.cp.encode(c.encode_utf8(&mut tmp)));
    }
    if got != concat {
        let at = got.iter().zip(concat.iter()).position(|(a, b)| a != b).unwrap_or(got.len().min(concat.len()));
        return Err(Fail::new(
            format!("{P} not-compositional cp={}", page.id),
            format!("encode of a {}-byte string differs from the concatenation of its characters' encodings at byte {} (lengths {} vs {})", s.len(), at, got.len(), concat.len()),
        ));
    }
    let want = page.encode(s);
    if got != want {
        return Err(Fail::new(
            format!("{P} oracle-encode-string cp={}", page.id),
            format!("encode of a {}-byte string differs from {}", s.len(), page.label.unwrap_or("US-ASCII")),
        ));
    }
    check_bytes(page, &got)
}

fn check_id(n: i32) -> Check {
    let known = PAGES.iter().find(|p| p.id == n);
    match (CodePage::from_id(n), known) {
        (Some(cp), Some(p)) => {
            if cp != p.cp || cp.id() != n {
                return Err(Fail::new(format!("{P} id-lookup id={n}"), format!("from_id({n}) = {:?} with id {}", cp, cp.id())));
            }
        }
        (Some(cp), None) => {
            if n == 0 {
                if cp != CodePage::Utf8 {
                    return Err(Fail::new(format!("{P} id-lookup id=0"), format!("from_id(0) = {:?}, documented default is UTF-8", cp)));
                }
            } else {
                return Err(Fail::new(format!("{P} id-lookup id={n}"), format!("from_id({n}) = {:?} (id {}), but {n} is not one of the 26 documented pages", cp, cp.id())));
            }
        }
        (None, Some(_)) => {
            return Err(Fail::new(format!("{P} id-lookup id={n}"), format!("from_id({n}) = None for a documented page")));
        }
        (None, None) => {}
    }
    Ok(())
}

#[derive(Clone, Debug, serde::Serialize, serde::Deserialize)]
pub struct StrCase {
    pub cp: i32,
    pub s: String,
}

fn boundary_strings() -> impl Strategy<Value = StrCase> {
    // prefix of ASCII filler whose encoded length sweeps the 1024-byte buffer
    // boundary, then a cluster of multi-byte / unmappable characters, then a tail.
    let interesting = prop::sample::select(vec![
        'é', 'ß', '€', 'Ж', 'я', 'Ω', 'א', 'ع', 'ก', 'ễ', 'あ', '日', '語', '한', '中', '國', '㈱',
        '\u{a0}', '¥', '\u{203e}', '\u{2212}', '\u{feff}', '😀', '\u{10ffff}', '?', 'x', '\u{80}', '\u{ff}',
    ]);
    (
        any::<prop::sample::Index>(),
        prop_oneof![Just(0usize), Just(1024usize), Just(2048usize), Just(3072usize)],
        0usize..40,
        prop::collection::vec(interesting.clone(), 0..12),
        prop::collection::vec(interesting, 0..6),
        0usize..1100,
    )
        .prop_map(|(pi, base, back, cluster, tail, tail_fill)| {
            let page = &PAGES[pi.index(PAGES.len())];
            let mut s = String::new();
            let fill = (base + 20).saturating_sub(back);
            for i in 0..fill {
                s.push((b'a' + (i % 26) as u8) as char);
            }
            s.extend(cluster.iter());
            for i in 0..tail_fill {
                s.push((b'A' + (i % 26) as u8) as char);
            }
            s.extend(tail.iter());
            StrCase { cp: page.id, s }
        })
}

/// Long strings made almost entirely of multi-byte characters, among them
/// ones whose second byte lies in the ASCII range in the double-byte pages
/// (0x5C, 0x40..0x7E): 4 to 13 KiB, so that a reader or writer that works in
/// blocks of 1, 4 or 8 KiB has character boundaries falling everywhere.
fn dense_strings() -> impl Strategy<Value = StrCase> {
    let chars = prop::sample::select(vec!['ソ', '表', '能', '十', '功', '許', '丂', '亐', '갂', '걁', '日', '語', '中', 'é', 'Ж', 'ก', '€', '😀', 'a', '\\']);
    (any::<prop::sample::Index>(), prop::collection::vec(chars, 1..4), 0usize..4, prop_oneof![Just(1_000usize), Just(2_040), Just(4_090), Just(8_185), Just(12_280)], 0usize..24)
        .prop_map(|(pi, pattern, prefix, base, extra)| {
            let page = &PAGES[pi.index(PAGES.len())];
            let mut s: String = "x".repeat(prefix);
            let target = base + extra;
            let unit: String = pattern.iter().collect();
            let unit_len = page.encode(&unit).len().max(1);
            let mut n = prefix;
            while n < target {
                s.push_str(&unit);
                n += unit_len;
            }
            StrCase { cp: page.id, s }
        })
}

pub fn run(ctx: &Ctx) -> Report {
    let mut rep = Report::new(
        "exploration",
        "every Unicode scalar value x every one of the 26 pages (encode, decode back, compare with the encoding_rs encoding chosen by WHATWG label from the page's documented name); every 1- and 2-byte sequence x 26 pages (decode); every identifier in -70,000..=70,000 plus generated 32-bit ones; generated strings whose encoded length sweeps the 1024-byte buffer boundary with multi-byte and unmappable characters at the boundary; dense multi-byte strings of 1..13 KiB (encode, and decode of the result, against the oracle). Non-trivial = a (page, scalar) pair that is representable in the page, a (page, byte sequence) with a non-ASCII byte, a boundary string longer than 1024 encoded bytes; distinct by the pair itself.",
    );
    rep.assumptions.push("encoding_rs mapping tables are trusted; their assignment to code pages is not (WHATWG label lookup from the documented name)".into());
    rep.assumptions.push("ISO 8859-1 (28591) is judged by the WHATWG reading: iso-8859-1 is a label of windows-1252".into());
    let mut st = Stats::new();

    // 1. scalars x pages: one work item per (page, 4096-scalar block)
    let mut blocks: Vec<(usize, u32)> = Vec::new();
    for pi in 0..PAGES.len() {
        let mut b = 0u32;
        while b < 0x110000 {
            blocks.push((pi, b));
            b += 0x1000;
        }
    }
    let v = par_enumerate(ctx, "scalar-block", &blocks, |&(pi, base), st| {
        let page = &PAGES[pi];
        for u in base..base + 0x1000 {
            if let Some(c) = char::from_u32(u) {
                st.eval();
                let r = check_scalar(page, c);
                if page.representable(c) {
                    st.nontrivial(&(page.id, u));
                    if !c.is_ascii() {
                        st.class_n("scalar:representable-non-ascii", 1);
                    }
                }
                if let Err(f) = r {
                    if ctx.is_known(&f.sig) {
                        st.excluded_known += 1;
                    } else {
                        return Err(f);
                    }
                }
            }
        }
        Ok(())
    }, &mut st);
    // re-express a block violation as the single scalar
    if let Some(mut v) = v {
        if let Some(u) = v.sig.split("scalar=U+").nth(1).and_then(|h| u32::from_str_radix(h, 16).ok()) {
            let pi = v.case["case"][0].as_u64().unwrap_or(0) as usize;
            v.case = json!({"kind": "scalar", "case": [PAGES[pi].id, u]});
        }
        rep.violations.push(v);
    }
    st.sample(json!({"page": 1252, "scalar": "U+20AC", "encoded": hex(&CodePage::Windows1252.encode("€"))}));
    st.sample(json!({"page": 932, "scalar": "U+65E5", "encoded": hex(&CodePage::Windows932.encode("日"))}));

    // 2. all 1- and 2-byte sequences x pages
    let mut byte_blocks: Vec<(usize, u32)> = Vec::new();
    for pi in 0..PAGES.len() {
        for hi in 0..=256u32 {
            byte_blocks.push((pi, hi)); // hi == 256: the 1-byte sequences
        }
    }
    let v = par_enumerate(ctx, "bytes-block", &byte_blocks, |&(pi, hi), st| {
        let page = &PAGES[pi];
        for lo in 0..=255u32 {
            let seq: Vec<u8> = if hi == 256 { vec![lo as u8] } else { vec![hi as u8, lo as u8] };
            st.eval();
            if seq.iter().any(|b| *b >= 0x80) {
                st.nontrivial(&(page.id, seq.clone()));
            }
            check_bytes(page, &seq)?;
        }
        Ok(())
    }, &mut st);
    if let Some(mut v) = v {
        // bytes are recoverable from the detail; store a replayable case
        if let Some(h) = v.detail.strip_prefix("decode(").and_then(|r| r.split(')').next()) {
            let bytes: Vec<u8> = (0..h.len() / 2).filter_map(|i| u8::from_str_radix(&h[2 * i..2 * i + 2], 16).ok()).collect();
            let pi = v.case["case"][0].as_u64().unwrap_or(0) as usize;
            v.case = json!({"kind": "bytes", "case": [PAGES[pi].id, bytes]});
        }
        rep.violations.push(v);
    }
    st.sample(json!({"page": 1252, "bytes": "FFFE", "decoded": CodePage::Windows1252.decode(&[0xff, 0xfe])}));

    // 3. identifiers
    let ids: Vec<i32> = (-70_000..=70_000).collect();
    let v = par_enumerate(ctx, "id", &ids, |&n, st| {
        st.eval();
        if PAGES.iter().any(|p| p.id == n) || n == 0 {
            st.nontrivial(&("id", n));
        }
        check_id(n)
    }, &mut st);
    rep.push(v);
    let v = search(ctx, "id", ctx.tier.pick(50_000, 2_000_000), || any::<i32>(), |&n, st| {
        st.eval();
        check_id(n)
    }, &mut st);
    rep.push(v);
    for p in PAGES {
        // reverse lookup: id() of each variant is its documented number
        st.eval();
        if p.cp.id() != p.id || CodePage::from_id(p.cp.id()) != Some(p.cp) {
            rep.violations.push(crate::engine::Violation {
                sig: format!("{P} id-reverse id={}", p.id),
                detail: format!("{:?}.id() = {}", p.cp, p.cp.id()),
                case: json!({"kind": "id", "case": p.id}),
            });
            break;
        }
    }

    // 4. strings across the buffer boundary
    let v = search(ctx, "string", ctx.tier.pick(20_000, 2_000_000), boundary_strings, |case: &StrCase, st| {
        st.eval();
        let page = crate::cpref::page_by_id(case.cp).unwrap();
        if page.encode(&case.s).len() > 1024 {
            st.nontrivial(&(case.cp, case.s.as_str()));
            st.class("string:beyond-1024");
        } else {
            st.class("string:short");
        }
        if st.wants_sample() && case.s.len() > 1000 && case.s.len() < 1200 {
            st.sample(json!({"page": case.cp, "string_len_bytes": case.s.len(), "tail": case.s.chars().rev().take(12).collect::<String>()}));
        }
        check_string(page, &case.s)
    }, &mut st);
    rep.push(v);
    let v = search(ctx, "dense", ctx.tier.pick(6_000, 100_000), dense_strings, |case: &StrCase, st| {
        st.eval();
        let page = crate::cpref::page_by_id(case.cp).unwrap();
        st.nontrivial(&(case.cp, case.s.as_str()));
        st.class("string:dense-long");
        check_string(page, &case.s)
    }, &mut st);
    rep.push(v);
    // random byte strings for the decoder
    let v = search(ctx, "bytes", ctx.tier.pick(20_000, 1_000_000),
        || (any::<prop::sample::Index>(), prop::collection::vec(any::<u8>(), 0..40)).prop_map(|(pi, b)| (PAGES[pi.index(PAGES.len())].id, b)),
        |(id, b): &(i32, Vec<u8>), st| {
            st.eval();
            if b.len() > 2 {
                st.nontrivial(&(id, b.clone()));
            }
            check_bytes(crate::cpref::page_by_id(*id).unwrap(), b)
        }, &mut st);
    rep.push(v);

    st.exhaustive = Some(true);
    rep.extra.insert("exhaustive_over".into(), json!("all 1,112,064 scalar values x 26 pages; all 1- and 2-byte sequences x 26 pages; all identifiers in -70,000..=70,000"));
    rep.stats = st;
    rep
}

pub fn replay(_ctx: &Ctx, doc: &J) -> Check {
    let kind = doc["kind"].as_str().unwrap_or("");
    let case = &doc["case"];
    let page_of = |v: &J| -> Result<&'static Page, Fail> {
        crate::cpref::page_by_id(v.as_i64().unwrap_or(-1) as i32)
            .ok_or_else(|| Fail::new(format!("{P} bad-replay"), "unknown page".to_string()))
    };
    match kind {
        "scalar" => {
            let page = page_of(&case[0])?;
            let c = char::from_u32(case[1].as_u64().unwrap_or(0) as u32).unwrap_or('\0');
            check_scalar(page, c)
        }
        "bytes" => {
            let page = page_of(&case[0])?;
            let b: Vec<u8> = case[1].as_array().map(|a| a.iter().map(|x| x.as_u64().unwrap_or(0) as u8).collect()).unwrap_or_default();
            check_bytes(page, &b)
        }
        "string" | "dense" => {
            let sc: StrCase = serde_json::from_value(case.clone()).map_err(|e| Fail::new(format!("{P} bad-replay"), e.to_string()))?;
            check_string(page_of(&json!(sc.cp))?, &sc.s)
        }
        "id" => check_id(case.as_i64().unwrap_or(0) as i32),
        _ => Err(Fail::new(format!("{P} bad-replay"), format!("unknown case kind {kind:?}"))),
    }
}
