//! C05 — stored tables always keep unique, ordered keys and valid cells.
//!
//! An invariant over every reachable state: it needs only the schema and the
//! rows the API returns (no model).

use crate::engine::{search, Check, Ctx, Fail, Report, Stats};
use crate::model::{key_of, ColDef};
use crate::observe::Snapshot;
use crate::refeval::V;
use crate::seq::{self, OpSeed, Outcome, Profile, Run, SeqCase, Weights, RESERVED};
use serde_json::{json, Value as J};

const P: &str = "C05";

pub const W_KEYS: Weights = Weights { create: 4, drop: 1, insert: 14, update: 16, delete: 8, select: 1, wstream: 0, rstream: 0, summary: 0, sum_cp: 0, db_cp: 2, flush: 1, reopen: 5 };
pub const KEYS: Profile = Profile { name: "keys", allow_empty: true, allow_key_update: true, allow_long: true, codepages: true, non_ascii: true, try_invalid: true };

/// The invariant on one table as reported by the API.
pub fn table_invariant(name: &str, cols: &[ColDef], rows: &[Vec<V>]) -> Result<(), (String, String)> {
    let mut prev: Option<Vec<V>> = None;
    for (i, r) in rows.iter().enumerate() {
        let k = key_of(cols, r);
        if let Some(p) = &prev {
            if *p == k {
                return Err(("duplicate-key".into(), format!("table {name:?}: rows #{} and #{i} share the primary key {k:?}", i - 1)));
            }
            if *p > k {
                return Err(("not-ascending".into(), format!("table {name:?}: row #{i} has key {k:?} after key {p:?}")));
            }
        }
        prev = Some(k);
        for (c, v) in cols.iter().zip(r.iter()) {
            let ok = match v {
                // a null read back from a string column stands for the empty
                // string (one representation on disk): valid if either is
                V::Null => c.nullable || c.valid_ref(&V::Str(String::new())) != Some(false),
                other => c.valid_ref(other) != Some(false),
            };
            if !ok {
                return Err(("invalid-cell".into(), format!("table {name:?} row #{i}: cell {v:?} is not valid for column {c:?}")));
            }
        }
    }
    // full pairwise uniqueness (adjacent comparison suffices only when sorted)
    let mut keys: Vec<Vec<V>> = rows.iter().map(|r| key_of(cols, r)).collect();
    keys.sort();
    for w in keys.windows(2) {
        if w[0] == w[1] {
            return Err(("duplicate-key".into(), format!("table {name:?}: two rows share the primary key {:?}", w[0])));
        }
    }
    Ok(())
}

pub fn snapshot_invariant(snap: &Snapshot, when: &str, trace: &str) -> Check {
    for (name, (cols, rows)) in &snap.tables {
        if RESERVED.contains(&name.as_str()) {
            continue;
        }
        if let Err((kind, what)) = table_invariant(name, cols, rows) {
            return Err(Fail::new(format!("{P} {kind} when={when}"), format!("{what}; history: {trace}")));
        }
    }
    Ok(())
}

pub fn check_seq(case: &SeqCase, st: &mut Stats) -> Check {
    let mut run = Run::create(P, case.ptype, &KEYS)?;
    for op in &case.ops {
        let out = match run.apply(P, op) {
            Ok(o) => o,
            // an unexpected refusal of a valid op is C03/C07's business; the
            // invariant is checked on whatever state results
            Err(f) if f.sig.contains("unexpected-error") => Outcome::Applied,
            Err(f) => return Err(f),
        };
        match out {
            Outcome::Skipped => continue,
            Outcome::Diverged(what) => {
                // whatever the library stored, the invariant must hold
                let snap = run.snapshot(P)?;
                snapshot_invariant(&snap, "after-accepting-an-invalid-value", &format!("{what}; {}", run.trace_text()))?;
                let (_, after, _) = run.reopen(P, seq::close_mode(case.final_close))?;
                snapshot_invariant(&after, "after-reopen", &format!("{what}; {}", run.trace_text()))?;
                return Ok(());
            }
            Outcome::Reopened(_, before, after, _) => {
                snapshot_invariant(&before, "before-close", &run.trace_text())?;
                snapshot_invariant(&after, "after-reopen", &run.trace_text())?;
            }
            _ => {
                let snap = run.snapshot(P)?;
                snapshot_invariant(&snap, &format!("after-{}", op.kind()), &run.trace_text())?;
            }
        }
    }
    let (_, after, _) = run.reopen(P, seq::close_mode(case.final_close))?;
    snapshot_invariant(&after, "after-reopen", &run.trace_text())?;
    for c in run.classes.iter() {
        st.class(c);
    }
    if run.classes.contains(&"update-assigns-key") || run.classes.contains(&"batch-insert") {
        st.nontrivial(case);
    }
    Ok(())
}

pub fn run(ctx: &Ctx) -> Report {
    let mut rep = Report::new(
        "exploration",
        "late-bound operation sequences on library-created packages weighted towards updates that assign primary-key columns (to a constant, so that rows collide; to values that reorder), batch inserts in arbitrary order, delete/insert cycles, nullable and empty-string keys, composite keys, database code-page switches (also between two saves with no other change), with reopen points; invariant after every step and after every reopen, for every user table, from the API-reported schema and rows alone: key tuples pairwise distinct (modulo ''==null), rows ascending, every cell valid for its column by the reference validity predicate. Non-trivial = the sequence contains an update of a key column or a batch insert of >= 2 rows; distinct by op list.",
    );
    rep.assumptions.push("a null read back in a non-nullable string column counts as the (valid) empty string".into());
    let mut st = Stats::new();
    let max_ops = ctx.tier.pick(14, 40);
    let v = search(ctx, "seq", ctx.tier.pick(80_000, 800_000), || seq::seq_case(W_KEYS, max_ops), |c: &SeqCase, st| {
        st.eval();
        if st.wants_sample() && c.ops.len() > 5 && st.evaluations % 29 == 2 {
            st.sample(json!({"ops": c.ops.iter().map(|o| o.kind()).collect::<Vec<_>>()}));
        }
        check_seq(c, st)
    }, &mut st);
    rep.push(v);
    rep.stats = st;
    rep
}

pub fn replay(_ctx: &Ctx, doc: &J) -> Check {
    let kind = doc["kind"].as_str().unwrap_or("");
    let mut st = Stats::new();
    match kind {
        "seq" => check_seq(&serde_json::from_value::<SeqCase>(doc["case"].clone()).map_err(|e| Fail::new(format!("{P} bad-replay"), e.to_string()))?, &mut st),
        _ => Err(Fail::new(format!("{P} bad-replay"), format!("unknown case kind {kind:?}"))),
    }
}

#[allow(dead_code)]
fn _unused(_: OpSeed) {}
