//! C20 — capacity limits are enforced as errors, and symmetrically.

use crate::enc::{self, AbsCol, AbsDb, AbsTable, PoolOpts, SummarySpec};
use crate::engine::{par_enumerate, Check, Ctx, Fail, Report, Stats};
use crate::fmt;
use crate::media::SharedBuf;
use crate::model::{ColDef, MSummary, Ty};
use crate::observe::{observe, Snapshot};
use crate::refeval::V;
use msi::{Column, Delete, Expr, Insert, Package, PackageType, Value};
use serde::{Deserialize, Serialize};
use serde_json::{json, Value as J};
use std::io::Write;

const P: &str = "C20";

#[derive(Clone, Debug, Serialize, Deserialize, Hash, PartialEq, Eq)]
pub enum Limit {
    Columns(usize),
    /// n rows in one batch into an empty table
    RowsBatch(u32),
    /// `base` rows, save + reopen, then `extra` more rows in one call
    RowsIncremental(u32, u32),
    /// fill to 65,536, delete `freed`, insert `again`
    RowsAfterDelete(u32, u32),
    /// a file (written by the independent encoder) whose pool has `pre`
    /// entries; then `add` new distinct strings through one API insert;
    /// `via_table`: the new strings arrive through create_table instead
    Strings(u32, u32, bool),
    /// as above but after deleting `freed` rows first (slots become free)
    StringsAfterDelete(u32, u32, u32),
    /// `_Validation` holds 65,536 - `free` rows (rows about absent tables, as
    /// real packages have); then create_table with `ncols` columns
    ValidationRowsFull(u32, u32),
    TableName(usize),
    ColumnName(usize),
    /// packable characters only / one unpackable character per pair
    StreamName(usize, bool),
    /// every row of the table that fills the pool is deleted without a
    /// condition (0) or the table is dropped (1), reopen, then `add` strings
    /// new to the pool are needed (by an insert into S resp. a new table)
    StringsAfterDeleteAll(u8, u32),
    /// as `StringsAfterDelete`, with the package closed and reopened between
    /// the deletion (the session's only change) and the insert
    StringsAfterDeleteReopen(u32, u32, u32),
    /// n characters outside ASCII (0 three-byte '日', 1 two-byte 'é', 2 the
    /// surrogate pair '😀') behind a one-letter prefix: the limit counts
    /// UTF-16 units of the packed name, not bytes and not characters
    StreamNameWide(usize, u8),
    /// the pool is filled to 65,535 entries through the API, `free` entries
    /// are freed by a deletion, then one UPDATE assigns two strings new to the
    /// pool to a row whose old strings another row holds as well (so the
    /// update itself gives nothing back)
    UpdateAfterDelete(u32),
}

#[derive(Clone, Copy, Debug, PartialEq)]
enum Expect {
    MustOk,
    MustErr,
    Either,
}

fn err(what: &str, e: std::io::Error) -> Fail {
    Fail::new(format!("{P} unexpected-error op={what}"), format!("{what} failed: {e}"))
}

fn snap(pkg: &mut Package<SharedBuf>) -> Result<Snapshot, Fail> {
    observe(pkg).map_err(|e| Fail::new(format!("{P} unreadable-state"), format!("the package can no longer be read through the API: {e}")))
}

fn ident(n: usize) -> String {
    let mut s = String::from("N");
    while s.len() < n {
        s.push((b'a' + (s.len() % 26) as u8) as char);
    }
    s
}

pub fn strings_db(rows: u32) -> AbsDb {
    let key = AbsCol { def: ColDef::new("k", Ty::Str(0)).key(), width1: false, nullable_in_bits: false, nullable_in_validation: false, validated: true };
    let t = AbsTable { name: "S".into(), cols: vec![key], rows: (0..rows).map(|i| vec![V::Str(format!("s{i:06}"))]).collect() };
    AbsDb {
        ptype: 0,
        codepage_id: 65001,
        pool: PoolOpts { long_refs: false, hole_every: 0, dup_every: 0, overcount_every: 0, overcount_by: 0, leading_holes: 0 },
        tables: vec![t],
        with_validation: true,
        summary: SummarySpec { values: MSummary { codepage: 65001, title: Some("t".into()), ..MSummary::default() }, version: 0, header_gap: 0, gaps: vec![], reverse_values: false, trailing: 0, rotate: 0 },
        streams: vec![],
        stale_validation: false,
    }
}

/// A file whose string pool has exactly `entries` entries.
pub fn file_with_pool(entries: u32) -> Result<Vec<u8>, Fail> {
    let probe = enc::encode_db(&strings_db(10)).map_err(|e| Fail::new(format!("{P} harness-encoder"), e))?;
    let base = fmt::decode(&probe).map_err(|e| Fail::new(format!("{P} harness-encoder"), e))?.pool.entries.len() as u32 - 10;
    let rows = entries.saturating_sub(base);
    let bytes = enc::encode_db(&strings_db(rows)).map_err(|e| Fail::new(format!("{P} harness-encoder"), e))?;
    let got = fmt::decode(&bytes).map_err(|e| Fail::new(format!("{P} harness-encoder"), e))?.pool.entries.len() as u32;
    if got != entries {
        return Err(Fail::new(format!("{P} harness-encoder"), format!("wanted a pool of {entries} entries, built {got}")));
    }
    Ok(bytes)
}

/// Runs the operation that approaches the limit; returns the package, the
/// snapshot before the final call, the call's result and the expectation.
fn approach(l: &Limit) -> Result<(Package<SharedBuf>, SharedBuf, Snapshot, std::io::Result<()>, Expect), Fail> {
    let int_table = |pkg: &mut Package<SharedBuf>| pkg.create_table("R", vec![Column::build("k").primary_key().int32()]).map_err(|e| err("create_table", e));
    let rows = |from: u32, n: u32| -> Insert { Insert::into("R").rows((from..from + n).map(|i| vec![Value::Int(i as i32 + 1)]).collect()) };
    let fresh = || -> Result<(Package<SharedBuf>, SharedBuf), Fail> {
        let buf = SharedBuf::new(Vec::new());
        let pkg = Package::create(PackageType::Installer, buf.clone()).map_err(|e| err("create", e))?;
        Ok((pkg, buf))
    };
    match l {
        Limit::Columns(n) => {
            let (mut pkg, buf) = fresh()?;
            let before = snap(&mut pkg)?;
            let mut cols = vec![Column::build("k").primary_key().int16()];
            for i in 1..*n {
                cols.push(Column::build(format!("c{i}")).nullable().string(8));
            }
            let r = pkg.create_table("Wide", cols);
            if r.is_ok() {
                // a row with a value in every column
                let mut row = vec![Value::Int(1)];
                for i in 1..*n {
                    row.push(Value::Str(format!("v{i}")));
                }
                pkg.insert_rows(Insert::into("Wide").row(row)).map_err(|e| err("insert", e))?;
            }
            Ok((pkg, buf, before, r, if *n <= 32 { Expect::MustOk } else { Expect::MustErr }))
        }
        Limit::RowsBatch(n) => {
            let (mut pkg, buf) = fresh()?;
            int_table(&mut pkg)?;
            let before = snap(&mut pkg)?;
            let r = pkg.insert_rows(rows(0, *n));
            Ok((pkg, buf, before, r, if *n <= 65536 { Expect::MustOk } else { Expect::MustErr }))
        }
        Limit::RowsIncremental(base, extra) => {
            let (mut pkg, _buf) = fresh()?;
            int_table(&mut pkg)?;
            pkg.insert_rows(rows(0, *base)).map_err(|e| err("insert", e))?;
            let bytes = pkg.into_inner().map_err(|e| err("into_inner", e))?.bytes();
            let buf = SharedBuf::new(bytes);
            let mut pkg = Package::open(buf.clone()).map_err(|e| Fail::new(format!("{P} unreadable-file"), format!("a file with {base} rows does not open: {e}")))?;
            let before = snap(&mut pkg)?;
            let r = pkg.insert_rows(rows(*base, *extra));
            Ok((pkg, buf, before, r, if base + extra <= 65536 { Expect::MustOk } else { Expect::MustErr }))
        }
        Limit::RowsAfterDelete(freed, again) => {
            let (mut pkg, buf) = fresh()?;
            int_table(&mut pkg)?;
            pkg.insert_rows(rows(0, 65536)).map_err(|e| err("insert", e))?;
            pkg.delete_rows(Delete::from("R").with(Expr::col("k").le(Expr::integer(*freed as i32)))).map_err(|e| err("delete", e))?;
            let before = snap(&mut pkg)?;
            let r = pkg.insert_rows(rows(70000, *again));
            Ok((pkg, buf, before, r, if again <= freed { Expect::MustOk } else { Expect::MustErr }))
        }
        Limit::Strings(pre, add, via_table) => {
            let buf = SharedBuf::new(file_with_pool(*pre)?);
            let mut pkg = Package::open(buf.clone()).map_err(|e| Fail::new(format!("{P} unreadable-file"), format!("a file with {pre} pool entries does not open: {e}")))?;
            let before = snap(&mut pkg)?;
            let r = if *via_table {
                // table name + column names are the new strings
                let mut cols = vec![Column::build("NewKey_0").primary_key().int16()];
                for i in 1..add.saturating_sub(1) {
                    cols.push(Column::build(format!("NewCol_{i}")).nullable().int16());
                }
                pkg.create_table("NewTable_0", cols)
            } else {
                pkg.insert_rows(Insert::into("S").rows((0..*add).map(|i| vec![Value::Str(format!("new{i:05}"))]).collect()))
            };
            let expect = if pre + add <= 65535 { Expect::MustOk } else if *pre >= 65535 || !*via_table { Expect::MustErr } else { Expect::Either };
            Ok((pkg, buf, before, r, expect))
        }
        Limit::StringsAfterDelete(pre, freed, add) => {
            let buf = SharedBuf::new(file_with_pool(*pre)?);
            let mut pkg = Package::open(buf.clone()).map_err(|e| Fail::new(format!("{P} unreadable-file"), format!("a file with {pre} pool entries does not open: {e}")))?;
            pkg.delete_rows(Delete::from("S").with(Expr::col("k").lt(Expr::string(format!("s{:06}", freed))))).map_err(|e| err("delete", e))?;
            let before = snap(&mut pkg)?;
            let r = pkg.insert_rows(Insert::into("S").rows((0..*add).map(|i| vec![Value::Str(format!("new{i:05}"))]).collect()));
            Ok((pkg, buf, before, r, if pre - freed + add <= 65535 { Expect::MustOk } else { Expect::MustErr }))
        }
        Limit::UpdateAfterDelete(free) => {
            let buf = SharedBuf::new(file_with_pool(65_000)?);
            let mut pkg = Package::open(buf.clone()).map_err(|e| Fail::new(format!("{P} unreadable-file"), format!("a file with 65,000 pool entries does not open: {e}")))?;
            pkg.create_table("U", vec![Column::build("k").primary_key().int16(), Column::build("a").string(0), Column::build("b").string(0)]).map_err(|e| err("create_table", e))?;
            pkg.insert_rows(Insert::into("U").row(vec![Value::Int(1), Value::from("shared-a"), Value::from("shared-b")]).row(vec![Value::Int(2), Value::from("shared-a"), Value::from("shared-b")])).map_err(|e| err("insert", e))?;
            pkg.flush().map_err(|e| err("flush", e))?;
            let entries = fmt::decode(&buf.bytes()).map_err(|e| Fail::new(format!("{P} harness-decoder"), e))?.pool.entries.len() as u32;
            let filler = 65_535u32.saturating_sub(entries);
            pkg.insert_rows(Insert::into("S").rows((0..filler).map(|i| vec![Value::Str(format!("fill{i:06}"))]).collect())).map_err(|e| err("insert filler", e))?;
            if *free > 0 {
                pkg.delete_rows(Delete::from("S").with(Expr::col("k").lt(Expr::string(format!("fill{:06}", free))).and(Expr::col("k").ge(Expr::string("fill"))))).map_err(|e| err("delete", e))?;
            }
            let before = snap(&mut pkg)?;
            let r = pkg.update_rows(msi::Update::table("U").set("a", Value::from("new-a")).set("b", Value::from("new-b")).with(Expr::col("k").eq(Expr::integer(1))));
            Ok((pkg, buf, before, r, if *free >= 2 { Expect::MustOk } else { Expect::MustErr }))
        }
        Limit::StringsAfterDeleteAll(how, add) => {
            let buf = SharedBuf::new(file_with_pool(65_535)?);
            let mut pkg = Package::open(buf.clone()).map_err(|e| Fail::new(format!("{P} unreadable-file"), format!("a file with a full pool does not open: {e}")))?;
            if how % 2 == 0 {
                pkg.delete_rows(Delete::from("S")).map_err(|e| err("delete all", e))?;
            } else {
                pkg.drop_table("S").map_err(|e| err("drop_table", e))?;
            }
            let bytes = pkg.into_inner().map_err(|e| err("into_inner", e))?.bytes();
            let buf = SharedBuf::new(bytes);
            let mut pkg = Package::open(buf.clone()).map_err(|e| Fail::new(format!("{P} unreadable-file"), format!("the file does not open after the deletion was saved: {e}")))?;
            let before = snap(&mut pkg)?;
            let r = if how % 2 == 0 {
                pkg.insert_rows(Insert::into("S").rows((0..*add).map(|i| vec![Value::Str(format!("new{i:05}"))]).collect()))
            } else {
                pkg.create_table("Fresh", vec![Column::build("k").primary_key().string(0)]).and_then(|()| pkg.insert_rows(Insert::into("Fresh").rows((0..*add).map(|i| vec![Value::Str(format!("new{i:05}"))]).collect())))
            };
            Ok((pkg, buf, before, r, Expect::MustOk))
        }
        Limit::StringsAfterDeleteReopen(pre, freed, add) => {
            let buf = SharedBuf::new(file_with_pool(*pre)?);
            let mut pkg = Package::open(buf.clone()).map_err(|e| Fail::new(format!("{P} unreadable-file"), format!("a file with {pre} pool entries does not open: {e}")))?;
            pkg.delete_rows(Delete::from("S").with(Expr::col("k").lt(Expr::string(format!("s{:06}", freed))))).map_err(|e| err("delete", e))?;
            let bytes = pkg.into_inner().map_err(|e| err("into_inner", e))?.bytes();
            let buf = SharedBuf::new(bytes);
            let mut pkg = Package::open(buf.clone()).map_err(|e| Fail::new(format!("{P} unreadable-file"), format!("the file does not open after the deletion was saved: {e}")))?;
            let before = snap(&mut pkg)?;
            let r = pkg.insert_rows(Insert::into("S").rows((0..*add).map(|i| vec![Value::Str(format!("new{i:05}"))]).collect()));
            Ok((pkg, buf, before, r, if pre - freed + add <= 65535 { Expect::MustOk } else { Expect::MustErr }))
        }
        Limit::ValidationRowsFull(free, ncols) => {
            let (mut pkg, buf) = fresh()?;
            let have = pkg.select_rows(msi::Select::table("_Validation")).map_err(|e| err("select", e))?.len() as u32;
            let filler = 65536 - free - have;
            let rows: Vec<Vec<Value>> = (0..filler)
                .map(|i| vec![Value::Str(format!("Absent{}", i / 256)), Value::Str(format!("c{}", i % 256)), Value::from("Y"), Value::Null, Value::Null, Value::Null, Value::Null, Value::Null, Value::Null, Value::Null])
                .collect();
            pkg.insert_rows(Insert::into("_Validation").rows(rows)).map_err(|e| err("insert filler", e))?;
            let before = snap(&mut pkg)?;
            let mut cols = vec![Column::build("k").primary_key().int16()];
            for i in 1..*ncols {
                cols.push(Column::build(format!("c{i}")).nullable().int16());
            }
            let r = pkg.create_table("Late", cols);
            Ok((pkg, buf, before, r, if ncols <= free { Expect::MustOk } else { Expect::MustErr }))
        }
        Limit::TableName(n) => {
            let (mut pkg, buf) = fresh()?;
            let before = snap(&mut pkg)?;
            let name = ident(*n);
            let r = pkg.create_table(name.as_str(), vec![Column::build("k").primary_key().int16()]);
            if r.is_ok() {
                pkg.insert_rows(Insert::into(name.as_str()).row(vec![Value::Int(7)])).map_err(|e| err("insert", e))?;
            }
            Ok((pkg, buf, before, r, if *n <= 31 { Expect::MustOk } else if *n > 64 { Expect::MustErr } else { Expect::Either }))
        }
        Limit::ColumnName(n) => {
            let (mut pkg, buf) = fresh()?;
            let before = snap(&mut pkg)?;
            let r = pkg.create_table("T", vec![Column::build("k").primary_key().int16(), Column::build(ident(*n)).nullable().string(4)]);
            if r.is_ok() {
                pkg.insert_rows(Insert::into("T").row(vec![Value::Int(7), Value::from("x")])).map_err(|e| err("insert", e))?;
            }
            Ok((pkg, buf, before, r, if *n <= 31 { Expect::MustOk } else if *n > 64 { Expect::MustErr } else { Expect::Either }))
        }
        Limit::StreamNameWide(n, which) => {
            let (mut pkg, buf) = fresh()?;
            let before = snap(&mut pkg)?;
            let c = ['日', 'é', '😀'][*which as usize % 3];
            let name: String = std::iter::once('n').chain(std::iter::repeat(c).take(*n)).collect();
            let units = fmt::encode_name(&name, false).encode_utf16().count();
            // write, read back, remove and write again: a name within the
            // limit is within it for every stream call
            let r = (|| -> std::io::Result<()> {
                {
                    let mut w = pkg.write_stream(&name)?;
                    w.write_all(b"payload")?;
                    w.flush()?;
                }
                {
                    use std::io::Read;
                    let mut b = Vec::new();
                    pkg.read_stream(&name)?.read_to_end(&mut b)?;
                }
                pkg.remove_stream(&name)?;
                let mut w = pkg.write_stream(&name)?;
                w.write_all(b"payload")?;
                w.flush()
            })();
            Ok((pkg, buf, before, r, if units <= 31 { Expect::MustOk } else { Expect::MustErr }))
        }
        Limit::StreamName(n, mixed) => {
            let (mut pkg, buf) = fresh()?;
            let before = snap(&mut pkg)?;
            let name: String = if *mixed { "a-".chars().cycle().take(*n).collect() } else { "abcdefghijklmnopqrstuvwxyz0123456789._".chars().cycle().take(*n).collect() };
            let units = fmt::encode_name(&name, false).encode_utf16().count();
            // write, read back, remove and write again: a name within the
            // limit is within it for every stream call
            let r = (|| -> std::io::Result<()> {
                {
                    let mut w = pkg.write_stream(&name)?;
                    w.write_all(b"payload")?;
                    w.flush()?;
                }
                {
                    use std::io::Read;
                    let mut b = Vec::new();
                    pkg.read_stream(&name)?.read_to_end(&mut b)?;
                }
                pkg.remove_stream(&name)?;
                let mut w = pkg.write_stream(&name)?;
                w.write_all(b"payload")?;
                w.flush()
            })();
            Ok((pkg, buf, before, r, if units <= 31 { Expect::MustOk } else { Expect::MustErr }))
        }
    }
}

pub fn check_limit(l: &Limit) -> Check {
    let (mut pkg, buf, before, res, expect) = crate::engine::catch(|| approach(l)).map_err(|(loc, msg)| Fail::new(format!("{P} panic at={loc}"), format!("{l:?} panicked: {msg}")))??;
    match (&res, expect) {
        (Ok(()), Expect::MustErr) => return Err(Fail::new(format!("{P} accepted-beyond-limit"), format!("{l:?}: the call returned Ok although it exceeds the limit"))),
        (Err(e), Expect::MustOk) => return Err(Fail::new(format!("{P} refused-within-limit"), format!("{l:?}: the call failed although it is within the limit: {e}"))),
        _ => {}
    }
    // whatever happened, the package is still readable through the API ...
    let now = crate::engine::catch(|| snap(&mut pkg)).map_err(|(loc, msg)| Fail::new(format!("{P} panic at={loc}"), format!("{l:?}: reading the package afterwards panicked: {msg}")))?.map_err(|f| Fail::new(f.sig, format!("{l:?}: {}", f.detail)))?;
    if res.is_err() {
        if let Some((part, d)) = before.diff(&now) {
            return Err(Fail::new(format!("{P} changed-by-rejected-call part={part}"), format!("{l:?}: the call returned Err but {part} changed: {}", crate::engine::clip(&d, 300))));
        }
    }
    // ... and the file it saves is one the library itself can read back, equal
    // to what was observable
    pkg.flush().map_err(|e| Fail::new(format!("{P} flush-failed"), format!("{l:?}: flush after the call failed: {e}")))?;
    let bytes = buf.bytes();
    drop(pkg);
    // a refused call must not leave anything behind in the file either: the
    // independent decoder still finds every pool entry's reference count equal
    // to the number of cells that refer to it (a leaked reference would use up
    // capacity that is strictly within the limits)
    if let Err((kind, d)) = crate::props::c08::check_file(&bytes, &now, true) {
        return Err(Fail::new(format!("{P} file-inconsistent kind={kind} call-result={}", if res.is_ok() { "ok" } else { "err" }), format!("{l:?}: {d}")));
    }
    let mut again = Package::open(SharedBuf::new(bytes)).map_err(|e| Fail::new(format!("{P} saved-file-unreadable"), format!("{l:?}: the library cannot open the file it saved: {e}")))?;
    let after = observe(&mut again).map_err(|e| Fail::new(format!("{P} saved-file-unreadable"), format!("{l:?}: the library cannot read the file it saved: {e}")))?;
    if let Some((part, d)) = now.canon().diff(&after.canon()) {
        return Err(Fail::new(format!("{P} round-trip part={part}"), format!("{l:?}: after save + reopen {part} differs: {}", crate::engine::clip(&d, 300))));
    }
    Ok(())
}

fn cases(thorough: bool) -> Vec<Limit> {
    let mut v = vec![
        Limit::Columns(31), Limit::Columns(32), Limit::Columns(33), Limit::Columns(34),
        Limit::RowsBatch(65535), Limit::RowsBatch(65536), Limit::RowsBatch(65537),
        Limit::RowsIncremental(65535, 1), Limit::RowsIncremental(65535, 2), Limit::RowsIncremental(65536, 1), Limit::RowsIncremental(65534, 1), Limit::RowsIncremental(60000, 5537),
        Limit::RowsAfterDelete(10, 10), Limit::RowsAfterDelete(10, 11), Limit::RowsAfterDelete(1, 1), Limit::RowsAfterDelete(1, 2),
        Limit::Strings(65533, 1, false), Limit::Strings(65534, 1, false), Limit::Strings(65535, 1, false), Limit::Strings(65534, 2, false), Limit::Strings(65530, 5, false), Limit::Strings(65530, 6, false),
        Limit::Strings(65535, 3, true), Limit::Strings(65533, 4, true), Limit::Strings(65500, 4, true),
        Limit::ValidationRowsFull(2, 2), Limit::ValidationRowsFull(1, 2), Limit::ValidationRowsFull(0, 1), Limit::ValidationRowsFull(3, 5),
        Limit::StringsAfterDelete(65535, 3, 3), Limit::StringsAfterDelete(65535, 3, 4), Limit::StringsAfterDelete(65535, 1, 1),
        Limit::StringsAfterDeleteAll(0, 1000), Limit::StringsAfterDeleteAll(1, 1000),
        Limit::UpdateAfterDelete(0), Limit::UpdateAfterDelete(1), Limit::UpdateAfterDelete(2), Limit::UpdateAfterDelete(3),
        Limit::StringsAfterDeleteReopen(65535, 3, 3), Limit::StringsAfterDeleteReopen(65535, 3, 4), Limit::StringsAfterDeleteReopen(65535, 1, 1),
    ];
    for n in [30usize, 31, 32, 33, 59, 60, 61, 64, 65] {
        v.push(Limit::TableName(n));
    }
    for n in [31usize, 32, 33, 63, 64, 65, 100] {
        v.push(Limit::ColumnName(n));
    }
    for n in [60usize, 61, 62, 63, 64] {
        v.push(Limit::StreamName(n, false));
    }
    for n in [30usize, 31, 32, 33] {
        v.push(Limit::StreamName(n, true));
    }
    for which in 0..3u8 {
        for n in [14usize, 15, 16, 20, 21, 22, 29, 30, 31, 32] {
            v.push(Limit::StreamNameWide(n, which));
        }
    }
    if thorough {
        for (a, b) in [(1u32, 65535u32), (32768, 32768), (32768, 32769), (65536, 0), (0, 65537)] {
            v.push(Limit::RowsIncremental(a, b));
        }
        for (pre, add) in [(60000u32, 5535u32), (60000, 5536), (65000, 535), (65000, 536)] {
            v.push(Limit::Strings(pre, add, false));
        }
        for n in 1..=40usize {
            v.push(Limit::Columns(n));
        }
    }
    v
}

pub fn run(ctx: &Ctx) -> Report {
    let mut rep = Report::new(
        "exploration",
        "directed generators per limit L producing L-1, L and L+1, in one batch and incrementally, across reopen, and after deletions freed capacity (also an UPDATE that needs two new pool entries when 0 / 1 / 2 / 3 were freed): columns (31/32/33/34), rows (65,535/65,536/65,537), distinct strings under 2-byte references (65,534/65,535/65,536, the expensive states written by the independent encoder, the new strings arriving through insert or through create_table), table names (30..65 characters), column names (31..100), stream names (60..64 packable characters; 30..33 mixed). Oracle: beyond the limit Err, at or below Ok (where the property gives the number); never a panic; after Err the API snapshot is unchanged; in every case the package stays readable, the file saved afterwards is opened by the library itself and equals what was observable. Non-trivial = a case at L or L+1; distinct by case.",
    );
    let mut st = Stats::new();
    let list = cases(ctx.tier == crate::engine::Tier::Thorough);
    let v = par_enumerate(ctx, "limit", &list, |l, st| {
        st.eval();
        st.nontrivial(l);
        let name = format!("{:?}", l);
        st.class(name.split('(').next().unwrap_or(""));
        if st.wants_sample() {
            st.sample(json!(name));
        }
        check_limit(l)
    }, &mut st);
    rep.push(v);
    rep.stats = st;
    rep
}

pub fn replay(_ctx: &Ctx, doc: &J) -> Check {
    match doc["kind"].as_str().unwrap_or("") {
        "limit" => check_limit(&serde_json::from_value::<Limit>(doc["case"].clone()).map_err(|e| Fail::new(format!("{P} bad-replay"), e.to_string()))?),
        k => Err(Fail::new(format!("{P} bad-replay"), format!("unknown case kind {k:?}"))),
    }
}
