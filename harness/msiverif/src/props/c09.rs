//! C09 — no input file can make the library panic.

use crate::battery::run_battery;
use crate::enc::{self, AbsDb};
use crate::engine::{search, Check, Ctx, Fail, Report, Stats};
use crate::fmt;
use crate::props::c02::db_strategy;
use crate::seq::pick;
use proptest::prelude::*;
use serde::{Deserialize, Serialize};
use serde_json::{json, Value as J};
use std::collections::BTreeMap;

const P: &str = "C09";

/// Format-level corruption operators, applied to the streams of a valid file.
#[derive(Clone, Debug, Serialize, Deserialize, Hash, PartialEq, Eq)]
pub enum Corrupt {
    /// replace one cell of a table (catalog tables included): 0 null, 1 all
    /// ones, 2 reference just beyond the pool, 3 the value 1, 4 the raw
    /// pattern of integer 0, 5 high bit only
    Cell { table: u16, row: u16, col: u16, kind: u8 },
    SetBytes { stream: u16, offset: u16, bytes: Vec<u8> },
    Truncate { stream: u16, keep: u16 },
    Extend { stream: u16, extra: Vec<u8> },
    Empty { stream: u16 },
    Remove { stream: u16 },
    ToStorage { stream: u16 },
    /// 0 unknown code page, 1 flip the reference-width bit, 2 code page 0xFFFF7FFF, 3 truncate header
    PoolHeader(u8),
    /// entry `index`: 0 huge length, 1 long-string escape with a huge length,
    /// 2 zero refcount with text, 3 under-count (1), 4 zero length live, 5 max refcount
    PoolEntry { index: u16, kind: u8 },
    /// property set: 0 bad BOM, 1 version 7, 2 OS 9, 3 reserved 0, 4 wrong
    /// FMTID, 5 section offset beyond, 6 huge count, 7 misaligned offset, 8
    /// offset out of bounds, 9 unknown type, 10 LPSTR length huge, 11 LPSTR
    /// length 0, 12 no terminator, 13 FILETIME beyond year 9999, 14 code page
    /// of wrong type, 15 unknown code page id, 16 section size 0, 17 duplicate id,
    /// 18..24 contents of the `which`-th string property: "{", last byte FF,
    /// first byte '{', both, all FF, first byte '}', empty
    Prop { kind: u8, which: u8 },
    Clsid(u8),
    /// give a stream another raw container name, spelled with code units at
    /// the boundaries of the name-packing ranges (`NAME_UNITS`)
    Rename { stream: u16, units: Vec<u8> },
}

/// Code units raw stream names are spelled from: both ends of the two packing
/// ranges (0x3800..0x4800 two digits, 0x4800..0x4840 one digit), the table
/// prefix 0x4840 and its neighbours, the property-set prefix, plain letters.
pub const NAME_UNITS: [u16; 16] = [0x0005, 0x0041, 0x0061, 0x005f, 0x37ff, 0x3800, 0x3801, 0x3fff, 0x47ff, 0x4800, 0x4801, 0x483f, 0x4840, 0x4841, 0x4842, 0xfffd];

#[derive(Clone, Debug, Serialize, Deserialize, Hash, PartialEq, Eq)]
pub struct Case {
    pub db: AbsDb,
    pub corrupt: Vec<Corrupt>,
}

#[derive(Clone, Debug, Serialize, Deserialize, Hash, PartialEq, Eq)]
pub struct RawCase {
    /// none = arbitrary bytes only
    pub base: Option<AbsDb>,
    /// (offset selector, replacement bytes)
    pub edits: Vec<(u32, Vec<u8>)>,
    pub truncate: Option<u32>,
    pub raw: Vec<u8>,
}

fn le16(b: &mut [u8], at: usize, v: u16) {
    if at + 2 <= b.len() {
        b[at..at + 2].copy_from_slice(&v.to_le_bytes());
    }
}
fn le32(b: &mut [u8], at: usize, v: u32) {
    if at + 4 <= b.len() {
        b[at..at + 4].copy_from_slice(&v.to_le_bytes());
    }
}

/// Builds the (possibly corrupted) file for a structured case.
pub fn build(case: &Case) -> Result<Vec<u8>, String> {
    let bytes = enc::encode_db(&case.db)?;
    if case.corrupt.is_empty() {
        return Ok(bytes);
    }
    let d = fmt::decode(&bytes)?;
    let mut clsid = d.clsid;
    let mut streams: BTreeMap<String, Vec<u8>> = d.raw_streams.clone();
    let mut storages: Vec<String> = Vec::new();
    let names: Vec<String> = streams.keys().cloned().collect();
    let long = d.pool.long_refs;
    let pool_name = fmt::encode_name("_StringPool", true);
    let pool_len = d.pool.entries.len() as u32;
    // table layouts
    let mut layouts: Vec<(String, Vec<i32>, usize)> = vec![
        (fmt::encode_name("_Tables", true), fmt::TABLES_TYPES.to_vec(), d.table_list.len()),
        (fmt::encode_name("_Columns", true), fmt::COLUMNS_TYPES.to_vec(), d.column_list.len()),
    ];
    for (n, t) in &d.tables {
        layouts.push((fmt::encode_name(n, true), t.cols.iter().map(|c| c.1).collect(), t.rows.len()));
    }
    for c in &case.corrupt {
        match c {
            Corrupt::Cell { table, row, col, kind } => {
                let (sname, words, nrows) = &layouts[pick(*table, layouts.len())];
                if *nrows == 0 {
                    continue;
                }
                let ci = pick(*col, words.len());
                let ri = pick(*row, *nrows);
                let width = |w: i32| -> usize {
                    match fmt::storage_of(w) {
                        Ok(fmt::Storage::I32) => 4,
                        Ok(fmt::Storage::I16) => 2,
                        _ => {
                            if long {
                                3
                            } else {
                                2
                            }
                        }
                    }
                };
                let off: usize = words[..ci].iter().map(|w| width(*w) * nrows).sum::<usize>() + ri * width(words[ci]);
                let w = width(words[ci]);
                let val: u32 = match kind % 6 {
                    0 => 0,
                    1 => 0xffff_ffff,
                    2 => pool_len + 1,
                    3 => 1,
                    4 => 0x8000_0000u32 >> if w == 4 { 0 } else { 16 },
                    _ => 1 << (8 * w as u32 - 1),
                };
                if let Some(b) = streams.get_mut(sname) {
                    let vb = val.to_le_bytes();
                    if off + w <= b.len() {
                        b[off..off + w].copy_from_slice(&vb[..w]);
                    }
                }
            }
            Corrupt::SetBytes { stream, offset, bytes } => {
                let n = &names[pick(*stream, names.len())];
                if let Some(b) = streams.get_mut(n) {
                    if !b.is_empty() {
                        let at = pick(*offset, b.len());
                        for (i, x) in bytes.iter().enumerate() {
                            if at + i < b.len() {
                                b[at + i] = *x;
                            }
                        }
                    }
                }
            }
            Corrupt::Truncate { stream, keep } => {
                let n = &names[pick(*stream, names.len())];
                if let Some(b) = streams.get_mut(n) {
                    let k = pick(*keep, b.len() + 1);
                    b.truncate(k);
                }
            }
            Corrupt::Extend { stream, extra } => {
                let n = &names[pick(*stream, names.len())];
                if let Some(b) = streams.get_mut(n) {
                    b.extend_from_slice(extra);
                }
            }
            Corrupt::Empty { stream } => {
                let n = &names[pick(*stream, names.len())];
                if let Some(b) = streams.get_mut(n) {
                    b.clear();
                }
            }
            Corrupt::Remove { stream } => {
                let n = &names[pick(*stream, names.len())];
                streams.remove(n);
            }
            Corrupt::Rename { stream, units } => {
                let n = names[pick(*stream, names.len())].clone();
                let new: String = units.iter().take(6).filter_map(|u| char::from_u32(NAME_UNITS[*u as usize % NAME_UNITS.len()] as u32)).collect();
                let taken = |s: &str| streams.keys().chain(storages.iter()).any(|k| k.to_uppercase() == s.to_uppercase());
                if !new.is_empty() && !taken(&new) {
                    if let Some(b) = streams.remove(&n) {
                        streams.insert(new, b);
                    }
                }
            }
            Corrupt::ToStorage { stream } => {
                let n = names[pick(*stream, names.len())].clone();
                if streams.remove(&n).is_some() {
                    storages.push(n);
                }
            }
            Corrupt::PoolHeader(kind) => {
                if let Some(b) = streams.get_mut(&pool_name) {
                    match kind % 4 {
                        0 => le32(b, 0, 12345 | if long { 0x8000_0000 } else { 0 }),
                        1 => {
                            if b.len() >= 4 {
                                b[3] ^= 0x80;
                            }
                        }
                        2 => le32(b, 0, 0xffff_7fff),
                        _ => b.truncate(2),
                    }
                }
            }
            Corrupt::PoolEntry { index, kind } => {
                if let Some(b) = streams.get_mut(&pool_name) {
                    let n = (b.len().saturating_sub(4)) / 4;
                    if n == 0 {
                        continue;
                    }
                    let at = 4 + 4 * pick(*index, n);
                    match kind % 6 {
                        0 => le16(b, at, 0xffff),
                        1 => {
                            le16(b, at, 0);
                            le16(b, at + 2, 0xffff);
                        }
                        2 => le16(b, at + 2, 0),
                        3 => le16(b, at + 2, 1),
                        4 => le16(b, at, 0),
                        _ => le16(b, at + 2, 0xffff),
                    }
                }
            }
            Corrupt::Prop { kind, which } => {
                if let Some(b) = streams.get_mut(fmt::SUMMARY_STREAM) {
                    let so = if b.len() >= 48 { u32::from_le_bytes([b[44], b[45], b[46], b[47]]) as usize } else { 48 };
                    let count = if so + 8 <= b.len() { u32::from_le_bytes([b[so + 4], b[so + 5], b[so + 6], b[so + 7]]) as usize } else { 0 };
                    // (an earlier operator may have planted a huge count: only
                    // the entries that fit in the stream are looked at)
                    let count = count.min(b.len().saturating_sub(so + 8) / 8);
                    let entry = |i: usize| so + 8 + 8 * i;
                    let i = if count > 0 { (*which as usize) % count } else { 0 };
                    let value_at = |b: &Vec<u8>, i: usize| -> usize {
                        let e = entry(i);
                        if e + 8 <= b.len() {
                            so + u32::from_le_bytes([b[e + 4], b[e + 5], b[e + 6], b[e + 7]]) as usize
                        } else {
                            b.len()
                        }
                    };
                    // find a string / filetime / codepage property where needed
                    let find_type = |b: &Vec<u8>, ty: u32| -> Option<usize> {
                        (0..count).map(|i| value_at(b, i)).find(|&at| at + 4 <= b.len() && u32::from_le_bytes([b[at], b[at + 1], b[at + 2], b[at + 3]]) == ty)
                    };
                    // the `which`-th string property, for the content kinds
                    let strings: Vec<usize> = (0..count).map(|i| value_at(b, i)).filter(|&at| at + 8 <= b.len() && u32::from_le_bytes([b[at], b[at + 1], b[at + 2], b[at + 3]]) == 30).collect();
                    let nth_string = if strings.is_empty() { None } else { Some(strings[*which as usize % strings.len()]) };
                    match kind % 25 {
                        0 => le16(b, 0, 0xfeff),
                        1 => le16(b, 2, 7),
                        2 => le16(b, 6, 9),
                        3 => le32(b, 24, 0),
                        4 => {
                            if b.len() > 30 {
                                b[30] ^= 0xff;
                            }
                        }
                        5 => le32(b, 44, 0x7fff_fff0),
                        6 => le32(b, so + 4, 0xffff_fff0),
                        7 => {
                            let e = entry(i);
                            if e + 8 <= b.len() {
                                let o = u32::from_le_bytes([b[e + 4], b[e + 5], b[e + 6], b[e + 7]]);
                                le32(b, e + 4, o + 1);
                            }
                        }
                        8 => le32(b, entry(i) + 4, 0xffff_ff00),
                        9 => {
                            let at = value_at(b, i);
                            le32(b, at, 77);
                        }
                        10 => {
                            if let Some(at) = find_type(b, 30) {
                                le32(b, at + 4, 0xffff_fff0);
                            }
                        }
                        11 => {
                            if let Some(at) = find_type(b, 30) {
                                le32(b, at + 4, 0);
                            }
                        }
                        12 => {
                            if let Some(at) = find_type(b, 30) {
                                let n = if at + 8 <= b.len() { u32::from_le_bytes([b[at + 4], b[at + 5], b[at + 6], b[at + 7]]) as usize } else { 0 };
                                if n > 0 && at + 8 + n <= b.len() {
                                    b[at + 8 + n - 1] = b'x';
                                }
                            }
                        }
                        13 => {
                            let at = match find_type(b, 64) {
                                Some(at) => Some(at),
                                None => find_type(b, 3).map(|at| {
                                    // turn an I4 into a FILETIME whose bytes follow
                                    le32(b, at, 64);
                                    at
                                }),
                            };
                            if let Some(at) = at {
                                le32(b, at + 4, 0xffff_ffff);
                                le32(b, at + 8, 0x7fff_ffff);
                            }
                        }
                        14 => {
                            if let Some(at) = find_type(b, 2) {
                                le32(b, at, 3);
                            }
                        }
                        15 => {
                            if let Some(at) = find_type(b, 2) {
                                le16(b, at + 4, 4321);
                            }
                        }
                        16 => le32(b, so, 0),
                        // contents of a string property (the getters parse
                        // some of them: braces of the revision number, digits)
                        k @ 18..=24 => {
                            if let Some(at) = nth_string {
                                let n = u32::from_le_bytes([b[at + 4], b[at + 5], b[at + 6], b[at + 7]]) as usize;
                                let first = at + 8;
                                if n >= 2 && first + n <= b.len() {
                                    let last = first + n - 2;
                                    match k {
                                        18 => {
                                            le32(b, at + 4, 2);
                                            b[first] = b'{';
                                            b[first + 1] = 0;
                                        }
                                        19 => b[last] = 0xff,
                                        20 => b[first] = b'{',
                                        21 => {
                                            b[first] = b'{';
                                            b[last] = 0xff;
                                        }
                                        22 => {
                                            for x in b[first..=last].iter_mut() {
                                                *x = 0xff;
                                            }
                                        }
                                        23 => b[first] = b'}',
                                        _ => {
                                            le32(b, at + 4, 1);
                                            b[first] = 0;
                                        }
                                    }
                                }
                            }
                        }
                        _ => {
                            if count >= 2 {
                                let id0 = u32::from_le_bytes([b[entry(0)], b[entry(0) + 1], b[entry(0) + 2], b[entry(0) + 3]]);
                                le32(b, entry(1), id0);
                            }
                        }
                    }
                }
            }
            Corrupt::Clsid(k) => {
                clsid = match k % 3 {
                    0 => uuid::Uuid::nil(),
                    1 => uuid::Uuid::from_u128(0x000C1085_0000_0000_C000_000000000046),
                    _ => uuid::Uuid::from_u128(u128::MAX),
                };
            }
        }
    }
    let list: Vec<(String, Vec<u8>)> = streams.into_iter().collect();
    let mut comp = cfb::CompoundFile::create(std::io::Cursor::new(Vec::new())).map_err(|e| e.to_string())?;
    comp.set_storage_clsid("/", clsid).map_err(|e| e.to_string())?;
    use std::io::Write;
    for (name, bytes) in &list {
        let mut s = comp.create_stream(format!("/{}", name)).map_err(|e| format!("create {name:?}: {e}"))?;
        s.write_all(bytes).map_err(|e| e.to_string())?;
        s.flush().map_err(|e| e.to_string())?;
    }
    for name in &storages {
        comp.create_storage(format!("/{}", name)).map_err(|e| e.to_string())?;
    }
    comp.flush().map_err(|e| e.to_string())?;
    Ok(comp.into_inner().into_inner())
}

pub fn build_raw(case: &RawCase) -> Result<Vec<u8>, String> {
    let mut bytes = match &case.base {
        Some(db) => enc::encode_db(db)?,
        None => case.raw.clone(),
    };
    for (off, rep) in &case.edits {
        if bytes.is_empty() {
            break;
        }
        let at = (*off as usize) % bytes.len();
        for (i, x) in rep.iter().enumerate() {
            if at + i < bytes.len() {
                bytes[at + i] = *x;
            }
        }
    }
    if let Some(t) = case.truncate {
        let k = (t as usize) % (bytes.len() + 1);
        bytes.truncate(k);
    }
    if case.base.is_some() {
        bytes.extend_from_slice(&case.raw[..case.raw.len().min(64)]);
    }
    Ok(bytes)
}

fn note_current(tag: &str, doc: &J) {
    // the case being executed, per thread: if the process dies (abort, stack
    // overflow), the check script replays these files one by one
    let dir = std::env::var("VERIF_DIR").unwrap_or_else(|_| "/verif".into());
    let tid = format!("{:?}", std::thread::current().id()).replace(|c: char| !c.is_ascii_digit(), "");
    let path = format!("{dir}/work/c09-current-{tag}-{tid}.json");
    let _ = std::fs::write(path, doc.to_string());
}

pub fn check_bytes(bytes: &[u8], st: &mut Stats) -> Check {
    let out = run_battery(bytes, true)?;
    st.class(&format!("stage:{}", out.stage));
    Ok(())
}

pub fn check_case(case: &Case, st: &mut Stats, record: bool) -> Check {
    if record {
        note_current("s", &json!({"property": P, "kind": "structured", "case": case}));
    }
    let bytes = build(case).map_err(|e| Fail::new(format!("{P} harness-encoder"), e))?;
    let out = run_battery(&bytes, true)?;
    st.class(&format!("stage:{}", out.stage));
    if out.stage != "open-error" || cfb::CompoundFile::open(std::io::Cursor::new(bytes.clone())).is_ok() {
        st.nontrivial(&crate::engine::hash_of(&bytes));
        st.class("reached-msi-level");
    }
    for c in &case.corrupt {
        let n = format!("{:?}", c);
        st.class(&format!("op:{}", n.split([' ', '(', '{']).next().unwrap_or("")));
    }
    Ok(())
}

pub fn check_raw(case: &RawCase, st: &mut Stats, record: bool) -> Check {
    if record {
        note_current("r", &json!({"property": P, "kind": "raw", "case": case}));
    }
    let bytes = build_raw(case).map_err(|e| Fail::new(format!("{P} harness-encoder"), e))?;
    let out = run_battery(&bytes, true)?;
    st.class(&format!("raw-stage:{}", out.stage));
    if cfb::CompoundFile::open(std::io::Cursor::new(bytes.clone())).is_ok() {
        st.nontrivial(&crate::engine::hash_of(&bytes));
        st.class("raw:reached-msi-level");
    }
    Ok(())
}

/// The FFI layer on the same files: one worker process per file; a non-zero
/// exit status (a panic inside an exported function aborts) is a violation.
pub fn check_ffi(case: &Case, st: &mut Stats) -> Check {
    let bytes = build(case).map_err(|e| Fail::new(format!("{P} harness-encoder"), e))?;
    let dir = std::env::var("VERIF_DIR").unwrap_or_else(|_| "/verif".into());
    let worker = format!("{dir}/harness/target/release/ffiworker");
    if !std::path::Path::new(&worker).exists() {
        eprintln!("ffiworker is not built ({worker}); run ./setup.sh");
        std::process::exit(2);
    }
    let tid = format!("{:?}", std::thread::current().id()).replace(|c: char| !c.is_ascii_digit(), "");
    let path = format!("{dir}/work/ffi-{}-{tid}.msi", std::process::id());
    std::fs::write(&path, &bytes).map_err(|e| Fail::new(format!("{P} harness-io"), e.to_string()))?;
    let out = std::process::Command::new(&worker).arg(&path).env("RUST_BACKTRACE", "0").output();
    let _ = std::fs::remove_file(&path);
    let out = match out {
        Ok(o) => o,
        Err(e) => {
            eprintln!("cannot run ffiworker: {e}");
            std::process::exit(2);
        }
    };
    if out.status.success() {
        st.class("ffi:worker-ok");
        return Ok(());
    }
    let stderr = String::from_utf8_lossy(&out.stderr).to_string();
    let at = stderr.split("panicked at ").nth(1).and_then(|r| r.split(|c: char| c == '\n' || c == ' ').next()).map(|l| {
        let l = l.trim_end_matches(':');
        let mut parts = l.rsplitn(3, ':');
        let _col = parts.next();
        let line = parts.next().unwrap_or("");
        let file = parts.next().unwrap_or(l);
        format!("{}:{}", crate::engine::short_path(file), line)
    });
    use std::os::unix::process::ExitStatusExt;
    if out.status.signal() == Some(9) {
        eprintln!("ffiworker was killed (resource problem?): inconclusive");
        std::process::exit(2);
    }
    Err(Fail::new(
        format!("{P} ffi-died at={}", at.unwrap_or_else(|| "unknown".into())),
        format!("the FFI worker (get_information + get_table for each table) ended with {:?}: {}", out.status, stderr.lines().take(4).collect::<Vec<_>>().join(" | ")),
    ))
}

/// Decodes a libFuzzer input of the `open_structured` target into its case
/// (the fuzzer's bytes drive the proptest strategy through the pass-through RNG).
/// Decodes a libFuzzer input of the structured target: the first 8 bytes
/// select the valid database (they seed the same proptest strategy the
/// in-process search uses), every following 8-byte record is one corruption
/// operator (tag byte, then its parameters), at most 8 of them.  One mutated
/// byte changes one parameter of one operator, so coverage feedback can steer.
///
/// (An earlier version drove the whole strategy from the fuzzer's bytes with
/// proptest's pass-through generator.  That generator halves its remaining
/// data at every `prop_flat_map` and yields zeros once it runs out, and the
/// rejection sampler behind every integer range whose size is not a power of
/// two rejects an all-zero draw for ever: the generator, not the library under
/// test, hung.  See DESIGN.md section 10.4.)
pub fn case_from_fuzz_bytes(data: &[u8]) -> Option<Case> {
    use proptest::strategy::ValueTree;
    use proptest::test_runner::{Config, RngAlgorithm, TestRng, TestRunner};
    if data.len() < 8 {
        return None;
    }
    let seed = u64::from_le_bytes([data[0], data[1], data[2], data[3], data[4], data[5], data[6], data[7]]);
    let rng = TestRng::from_seed(RngAlgorithm::ChaCha, &crate::engine::mix_seed(seed, "fuzz-db", 0));
    let mut runner = TestRunner::new_with_rng(Config { failure_persistence: None, ..Config::default() }, rng);
    let mut case = case_strategy_with(0.0).new_tree(&mut runner).ok().map(|t| t.current())?;
    case.corrupt = data[8..].chunks(8).take(8).map(decode_corrupt).collect();
    Some(case)
}

fn decode_corrupt(c: &[u8]) -> Corrupt {
    let b = |i: usize| c.get(i).copied().unwrap_or(0);
    let w = |i: usize| u16::from_le_bytes([b(i), b(i + 1)]);
    let rest = |i: usize| -> Vec<u8> {
        let v: Vec<u8> = c.iter().skip(i).copied().collect();
        if v.is_empty() {
            vec![0xff]
        } else {
            v
        }
    };
    match b(0) % 12 {
        0 => Corrupt::Cell { table: w(1), row: w(3), col: w(5), kind: b(7) },
        1 => Corrupt::SetBytes { stream: w(1), offset: w(3), bytes: rest(5) },
        2 => Corrupt::Truncate { stream: w(1), keep: w(3) },
        3 => Corrupt::Extend { stream: w(1), extra: rest(3) },
        4 => Corrupt::Empty { stream: w(1) },
        5 => Corrupt::Remove { stream: w(1) },
        6 => Corrupt::ToStorage { stream: w(1) },
        7 => Corrupt::PoolHeader(b(1)),
        8 => Corrupt::PoolEntry { index: w(1), kind: b(3) },
        9 => Corrupt::Prop { kind: b(1), which: b(2) },
        10 => Corrupt::Clsid(b(1)),
        _ => Corrupt::Rename { stream: w(1), units: rest(3) },
    }
}

/// Thorough tier: one coverage-guided libFuzzer campaign (cargo-fuzz) whose
/// in-target oracle is the same battery.  Returns violations for artifacts
/// that reproduce in-process.
fn fuzz_campaign(ctx: &Ctx, target: &str, runs: u64, st: &mut Stats) -> Vec<crate::engine::Violation> {
    let dir = ctx.verif_dir.clone();
    let crate_dir = format!("{dir}/harness/msiverif");
    let corpus = format!("{dir}/work/fuzz-corpus-{target}");
    let artifacts = format!("{crate_dir}/fuzz/artifacts/{target}");
    let _ = std::fs::remove_dir_all(&corpus);
    let _ = std::fs::remove_dir_all(&artifacts);
    std::fs::create_dir_all(&corpus).expect("corpus dir");
    // deterministic seed corpus: valid files from the encoder for the raw
    // target (the container magic is out of reach from an empty corpus)
    if target == "open_raw" {
        use proptest::strategy::ValueTree;
        use proptest::test_runner::{Config, RngAlgorithm, TestRng, TestRunner};
        let rng = TestRng::from_seed(RngAlgorithm::ChaCha, &crate::engine::mix_seed(ctx.seed, "fuzz-corpus", 0));
        let mut runner = TestRunner::new_with_rng(Config { failure_persistence: None, ..Config::default() }, rng);
        for i in 0..40 {
            if let Ok(t) = case_strategy().new_tree(&mut runner) {
                let mut c = t.current();
                if i % 2 == 0 {
                    c.corrupt.clear();
                }
                if let Ok(bytes) = build(&c) {
                    let _ = std::fs::write(format!("{corpus}/seed-{i:02}.msi"), bytes);
                }
            }
        }
    }
    let build = std::process::Command::new("cargo").args(["+nightly", "fuzz", "build", "-O", target]).current_dir(&crate_dir).env("CARGO_NET_OFFLINE", "true").output();
    match build {
        Ok(o) if o.status.success() => {}
        Ok(o) => {
            eprintln!("cargo fuzz build failed (inconclusive): {}", String::from_utf8_lossy(&o.stderr).lines().rev().take(5).collect::<Vec<_>>().join(" | "));
            std::process::exit(2);
        }
        Err(e) => {
            eprintln!("cannot run cargo fuzz (inconclusive): {e}");
            std::process::exit(2);
        }
    }
    // VERIF_FUZZ_RUNS: smaller campaigns while working on the harness itself
    let runs = std::env::var("VERIF_FUZZ_RUNS").ok().and_then(|v| v.parse::<u64>().ok()).unwrap_or(runs);
    let per_job = (runs / 16).max(1);
    let out = std::process::Command::new("cargo")
        .args(["+nightly", "fuzz", "run", "-O", target, &corpus, "--"])
        .args([format!("-runs={per_job}"), format!("-seed={}", (ctx.seed % 0xffff_fffe) + 1), "-len_control=0".into(), format!("-max_len={}", if target == "open_raw" { 65536 } else { 72 }), "-rss_limit_mb=4096".into(), "-malloc_limit_mb=2048".into(), "-timeout=120".into(), "-jobs=16".into(), "-workers=16".into(), "-print_final_stats=1".into(), format!("-max_total_time={}", std::env::var("VERIF_FUZZ_SECONDS").ok().and_then(|v| v.parse::<u64>().ok()).unwrap_or(1_200))])
        .current_dir(&crate_dir)
        .env("CARGO_NET_OFFLINE", "true")
        .env("RUST_BACKTRACE", "0")
        .env("VERIF_DIR", &dir)
        .output();
    let out = match out {
        Ok(o) => o,
        Err(e) => {
            eprintln!("cannot run cargo fuzz (inconclusive): {e}");
            std::process::exit(2);
        }
    };
    // libFuzzer's -jobs mode leaves one log per job in the working directory:
    // the number of inputs each job executed is taken from there (a campaign
    // ends at its run count or at its time limit, whichever comes first; the
    // time limit only bounds the exploration, it decides nothing)
    let mut executed: u64 = 0;
    if let Ok(rd) = std::fs::read_dir(&crate_dir) {
        for e in rd.flatten() {
            let n = e.file_name().to_string_lossy().to_string();
            if n.starts_with("fuzz-") && n.ends_with(".log") {
                if let Ok(text) = std::fs::read_to_string(e.path()) {
                    executed += text.lines().rev().find_map(|l| l.strip_prefix("stat::number_of_executed_units:").and_then(|v| v.trim().parse::<u64>().ok())).unwrap_or(0);
                }
                let _ = std::fs::remove_file(e.path());
            }
        }
    }
    st.evals(executed);
    st.class_n(&format!("libfuzzer:{target}:runs"), executed);
    st.notes.push(format!("libFuzzer ({target}): {executed} inputs executed by 16 jobs (limits: {} runs per job, {} s)", per_job, std::env::var("VERIF_FUZZ_SECONDS").ok().and_then(|v| v.parse::<u64>().ok()).unwrap_or(1_200)));
    let mut viols = Vec::new();
    let mut arts: Vec<std::path::PathBuf> = std::fs::read_dir(&artifacts).map(|rd| rd.flatten().map(|e| e.path()).collect()).unwrap_or_default();
    arts.sort();
    for a in arts {
        let data = match std::fs::read(&a) {
            Ok(d) => d,
            Err(_) => continue,
        };
        let name = a.file_name().map(|n| n.to_string_lossy().to_string()).unwrap_or_default();
        let keep = format!("{dir}/replays/C09-fuzz-{target}-{name}");
        let _ = std::fs::create_dir_all(format!("{dir}/replays"));
        let _ = std::fs::write(&keep, &data);
        let mut scratch = Stats::new();
        let verdict = if target == "open_raw" {
            crate::engine::no_panic(P, "fuzz artifact", || check_bytes(&data, &mut scratch)).and_then(|r| r)
        } else {
            match case_from_fuzz_bytes(&data) {
                Some(c) => crate::engine::no_panic(P, "fuzz artifact", || check_case(&c, &mut scratch, false)).and_then(|r| r),
                None => Ok(()),
            }
        };
        match verdict {
            Err(f) => {
                if ctx.is_known(&f.sig) {
                    st.excluded_known += 1;
                } else {
                    let kind = if target == "open_raw" { "file" } else { "fuzzcase" };
                    viols.push(crate::engine::Violation { sig: f.sig, detail: format!("libFuzzer ({target}) artifact {name}: {}", f.detail), case: json!({"kind": kind, "case": keep}) });
                }
            }
            Ok(()) => {
                st.notes.push(format!("libFuzzer ({target}) left artifact {name} which does not reproduce in-process (kept as {keep})"));
            }
        }
    }
    if !out.status.success() && viols.is_empty() {
        st.notes.push(format!("libFuzzer ({target}) ended with {:?} without a reproducible artifact", out.status));
    }
    viols
}

fn corrupt_strategy() -> impl Strategy<Value = Corrupt> {
    let small = prop::collection::vec(any::<u8>(), 1..5);
    prop_oneof![
        10 => (any::<u16>(), any::<u16>(), any::<u16>(), any::<u8>()).prop_map(|(table, row, col, kind)| Corrupt::Cell { table, row, col, kind }),
        4 => (any::<u16>(), any::<u16>(), small.clone()).prop_map(|(stream, offset, bytes)| Corrupt::SetBytes { stream, offset, bytes }),
        3 => (any::<u16>(), any::<u16>()).prop_map(|(stream, keep)| Corrupt::Truncate { stream, keep }),
        2 => (any::<u16>(), prop::collection::vec(any::<u8>(), 1..9)).prop_map(|(stream, extra)| Corrupt::Extend { stream, extra }),
        1 => any::<u16>().prop_map(|stream| Corrupt::Empty { stream }),
        2 => any::<u16>().prop_map(|stream| Corrupt::Remove { stream }),
        1 => any::<u16>().prop_map(|stream| Corrupt::ToStorage { stream }),
        2 => any::<u8>().prop_map(Corrupt::PoolHeader),
        5 => (any::<u16>(), any::<u8>()).prop_map(|(index, kind)| Corrupt::PoolEntry { index, kind }),
        8 => (any::<u8>(), any::<u8>()).prop_map(|(kind, which)| Corrupt::Prop { kind, which }),
        1 => any::<u8>().prop_map(Corrupt::Clsid),
        4 => (any::<u16>(), prop::collection::vec(any::<u8>(), 1..6)).prop_map(|(stream, units)| Corrupt::Rename { stream, units }),
    ]
}

pub fn case_strategy() -> impl Strategy<Value = Case> {
    case_strategy_with(0.06)
}

pub fn case_strategy_with(long_weight: f64) -> impl Strategy<Value = Case> {
    (crate::props::c02::db_strategy_with(long_weight, true), prop::collection::vec(corrupt_strategy(), 0..4)).prop_map(|(mut db, corrupt)| {
        // keep the files small: the battery does the heavy lifting
        db.pool.leading_holes = 0;
        for t in db.tables.iter_mut() {
            for r in t.rows.iter_mut() {
                for v in r.iter_mut() {
                    if let crate::refeval::V::Str(s) = v {
                        if s.len() > 5000 {
                            let mut cut = 100;
                            while !s.is_char_boundary(cut) {
                                cut -= 1;
                            }
                            s.truncate(cut);
                        }
                    }
                }
            }
        }
        Case { db, corrupt }
    })
}

fn raw_strategy() -> impl Strategy<Value = RawCase> {
    (
        prop::option::weighted(0.85, db_strategy()),
        prop::collection::vec((any::<u32>(), prop::collection::vec(any::<u8>(), 1..5)), 0..6),
        prop::option::weighted(0.15, any::<u32>()),
        prop_oneof![3 => prop::collection::vec(any::<u8>(), 0..64), 1 => prop::collection::vec(any::<u8>(), 512..2048)],
    )
        .prop_map(|(base, edits, truncate, raw)| {
            let base = base.map(|mut db| {
                db.pool.leading_holes = 0;
                db
            });
            RawCase { base, edits, truncate, raw }
        })
}

pub fn run(ctx: &Ctx) -> Report {
    let mut rep = Report::new(
        "exploration",
        "(1) valid databases from the independent encoder with 0..3 format-level corruption operators: any cell of any catalog or user table replaced (null, all ones, dangling reference, other string, raw zero pattern, high bit), stream bytes overwritten, streams truncated / extended / emptied / removed / replaced by a storage of the same name / renamed to raw names spelled with code units at the boundaries of the name-packing ranges, pool header (unknown code page, flipped reference width), pool entries (length beyond the data, long-string escape, zero refcount with text, under-count, live empty entry, maximal refcount), property set (BOM, version, OS, reserved, FMTID, section offset, count, misaligned / out-of-bounds offsets, unknown type, LPSTR length huge / 0 / unterminated, string contents a lone or unbalanced brace / non-UTF-8 bytes / empty, FILETIME beyond year 9999, code page of wrong type / unknown id, section size 0, duplicate id), wrong root CLSID; (2) arbitrary bytes and byte-level edits / truncations of valid files. On each the battery runs: Package::open; if Ok every read operation (tables, columns, select and full iteration with Row indexing, inner and left joins of small tables, summary getters, stream listing and reading, signature query) and every mutating operation (insert / update / delete on every table with schema-derived values, create and drop table, stream write / remove, summary setters, code-page changes) followed by flush. Oracle: every call returns; panics (with location), more than a size-proportional budget of I/O calls (20 million + 40,000 per 512 bytes of input), and a single allocation above 64 MiB + 16 x file size are violations. Non-trivial = the file passes the container layer (reaches MSI-level parsing); distinct by file hash. The thorough tier adds libFuzzer campaigns (fuzz/) and the FFI worker.",
    );
    rep.assumptions.push("a pure CPU loop would surface as a watchdog exit 2, not as a violation".into());
    let mut st = Stats::new();
    let _ = std::fs::create_dir_all(format!("{}/work", ctx.verif_dir));
    // watchdog: a stuck case makes the run inconclusive, never a violation
    let limit = ctx.tier.pick(600u64, 7200);
    std::thread::spawn(move || {
        std::thread::sleep(std::time::Duration::from_secs(limit));
        eprintln!("C09 watchdog: run exceeded {limit} s; inconclusive");
        std::process::exit(2);
    });
    let v = search(ctx, "structured", ctx.tier.pick(16_000, 200_000), case_strategy, |c: &Case, st| {
        st.eval();
        if st.wants_sample() && !c.corrupt.is_empty() && st.evaluations % 23 == 2 {
            st.sample(json!({"corruptions": c.corrupt, "tables": c.db.tables.iter().map(|t| t.name.clone()).collect::<Vec<_>>()}));
        }
        check_case(c, st, true)
    }, &mut st);
    rep.push(v);
    let v = search(ctx, "raw", ctx.tier.pick(6_000, 100_000), raw_strategy, |c: &RawCase, st| {
        st.eval();
        check_raw(c, st, true)
    }, &mut st);
    rep.push(v);
    // the FFI layer on files from the same generator (plus the two shapes its
    // code is most exposed to: a table stream that is a storage, a creation
    // time beyond year 9999)
    let v = search(ctx, "ffi", ctx.tier.pick(400, 5_000), || {
        (case_strategy(), prop_oneof![3 => Just(None), 1 => any::<u16>().prop_map(|s| Some(Corrupt::ToStorage { stream: s })), 1 => Just(Some(Corrupt::Prop { kind: 13, which: 0 }))]).prop_map(|(mut c, extra)| {
            if let Some(x) = extra {
                c.corrupt.push(x);
            }
            c
        })
    }, |c: &Case, st| {
        st.eval();
        st.nontrivial(&("ffi", c));
        check_ffi(c, st)
    }, &mut st);
    rep.push(v);
    if ctx.tier == crate::engine::Tier::Thorough && std::env::var("VERIF_NO_LIBFUZZER").is_err() {
        for target in ["open_structured", "open_raw"] {
            for v in fuzz_campaign(ctx, target, 2_000_000, &mut st) {
                rep.violations.push(v);
            }
        }
    }
    // clean the per-thread "current case" notes of a run that ended normally
    if let Ok(rd) = std::fs::read_dir(format!("{}/work", ctx.verif_dir)) {
        for e in rd.flatten() {
            if e.file_name().to_string_lossy().starts_with("c09-current-") {
                let _ = std::fs::remove_file(e.path());
            }
        }
    }
    rep.stats = st;
    rep
}

/// Writes `n` generated raw cases as replay documents (development aid: run
/// each in its own process to see which ones kill it).
pub fn dump_raw_cases(seed: u64, n: usize, out: &str) {
    use proptest::strategy::ValueTree;
    use proptest::test_runner::{Config, RngAlgorithm, TestRng, TestRunner};
    let rng = TestRng::from_seed(RngAlgorithm::ChaCha, &crate::engine::mix_seed(seed, "raw-dump", 0));
    let mut runner = TestRunner::new_with_rng(Config { failure_persistence: None, ..Config::default() }, rng);
    let strat = raw_strategy();
    let _ = std::fs::create_dir_all(out);
    for i in 0..n {
        if let Ok(t) = strat.new_tree(&mut runner) {
            let doc = json!({"property": P, "kind": "raw", "case": t.current()});
            let _ = std::fs::write(format!("{out}/raw-{i:05}.json"), doc.to_string());
        }
    }
}

/// Hand-made cases of the defects this check found and the repository
/// repaired (printed by `msiverif dump C09`; stored under regress/).
pub fn canned() -> Vec<(&'static str, &'static str, Case)> {
    use crate::enc::{AbsCol, AbsTable, PoolOpts, SummarySpec};
    use crate::model::{ColDef, MSummary, Ty};
    use crate::refeval::V;
    let col = |name: &str, ty: Ty, key: bool| AbsCol { def: { let mut d = ColDef::new(name, ty); d.key = key; d }, width1: false, nullable_in_bits: !key, nullable_in_validation: !key, validated: true };
    let db = AbsDb {
        ptype: 0,
        codepage_id: 1252,
        pool: PoolOpts { long_refs: false, hole_every: 0, dup_every: 0, overcount_every: 0, overcount_by: 0, leading_holes: 0 },
        tables: vec![AbsTable { name: "Alpha".into(), cols: vec![col("k", Ty::I16, true), col("s", Ty::Str(0), false)], rows: vec![vec![V::Int(1), V::Str("one".into())], vec![V::Int(2), V::Str("two".into())]] }],
        with_validation: true,
        summary: SummarySpec { values: MSummary { codepage: 1252, title: Some("t".into()), word_count: Some(2), ..MSummary::default() }, version: 0, header_gap: 0, gaps: vec![], reverse_values: false, trailing: 0, rotate: 0 },
        streams: vec![("Binary.a".into(), vec![1, 2, 3])],
        stale_validation: false,
    };
    let mk = |c: Vec<Corrupt>| Case { db: db.clone(), corrupt: c };
    vec![
        ("null-table-name", "a null cell in _Tables made Package::open panic (unwrap)", mk(vec![Corrupt::Cell { table: 0, row: 0, col: 0, kind: 0 }])),
        ("null-columns-cell", "a null cell in _Columns made Package::open panic (unwrap)", mk(vec![Corrupt::Cell { table: 20000, row: 0, col: 40000, kind: 0 }])),
        ("null-validation-key", "a null key in _Validation made Package::open panic (unwrap)", mk(vec![Corrupt::Cell { table: 65535, row: 0, col: 0, kind: 0 }])),
        ("dangling-string-ref", "a dangling string reference in a row made delete/update panic in decref", mk(vec![Corrupt::Cell { table: 40000, row: 0, col: 65535, kind: 2 }])),
        ("zero-refcount-with-text", "a pool entry with zero refcount and text tripped a debug assertion in incref / decref panicked", mk(vec![Corrupt::PoolEntry { index: 65535, kind: 2 }, Corrupt::PoolEntry { index: 60000, kind: 2 }])),
        ("pool-length-4gib", "a pool entry length of ~4 GiB drove a 4 GiB allocation", mk(vec![Corrupt::PoolEntry { index: 0, kind: 1 }])),
        ("lpstr-length-4gib", "an LPSTR length of ~4 GiB drove a 4 GiB allocation", mk(vec![Corrupt::Prop { kind: 10, which: 0 }])),
    ]
}

pub fn replay(_ctx: &Ctx, doc: &J) -> Check {
    let mut st = Stats::new();
    let bad = |e: serde_json::Error| Fail::new(format!("{P} bad-replay"), e.to_string());
    match doc["kind"].as_str().unwrap_or("") {
        "structured" => check_case(&serde_json::from_value::<Case>(doc["case"].clone()).map_err(bad)?, &mut st, false),
        "raw" => check_raw(&serde_json::from_value::<RawCase>(doc["case"].clone()).map_err(bad)?, &mut st, false),
        "ffi" => check_ffi(&serde_json::from_value::<Case>(doc["case"].clone()).map_err(bad)?, &mut st),
        "fuzzcase" => {
            let path = doc["case"].as_str().unwrap_or("");
            let bytes = std::fs::read(path).map_err(|e| Fail::new(format!("{P} bad-replay"), format!("{path}: {e}")))?;
            match case_from_fuzz_bytes(&bytes) {
                Some(c) => check_case(&c, &mut st, false),
                None => Ok(()),
            }
        }
        "file" => {
            // {"kind":"file","case":"<path>"}: a saved input (e.g. a libFuzzer artifact)
            let path = doc["case"].as_str().unwrap_or("");
            let bytes = std::fs::read(path).map_err(|e| Fail::new(format!("{P} bad-replay"), format!("{path}: {e}")))?;
            check_bytes(&bytes, &mut st)
        }
        k => Err(Fail::new(format!("{P} bad-replay"), format!("unknown case kind {k:?}"))),
    }
}
