//! C11 — binary streams keep their names and contents, apart from the tables.

use crate::engine::{search, Check, Ctx, Fail, Report, Stats};
use crate::fmt;
use crate::media::SharedBuf;
use crate::observe::read_rows;
use crate::refeval::V;
use crate::seq::pick;
use msi::{Column, Insert, Package, PackageType, Value};
use proptest::prelude::*;
use serde::{Deserialize, Serialize};
use serde_json::{json, Value as J};
use std::collections::BTreeMap;
use std::io::{Read, Write};

const P: &str = "C11";

#[derive(Clone, Debug, Serialize, Deserialize, Hash, PartialEq, Eq)]
pub enum SOp {
    Write(String, u16, u8),
    Remove(String),
    Read(String),
    Has(String),
    /// the same three aimed at a stream that is live at that point (late-bound)
    WriteLive(u16, u16, u8),
    RemoveLive(u16),
    ReadLive(u16),
    TableInsert(u8),
    /// create / drop a table whose name is also used for streams
    TableCreate(u8),
    TableDrop(u8),
    AddSignature(bool),
    RemoveSignature,
    Reopen(u8),
}

#[derive(Clone, Debug, Serialize, Deserialize, Hash, PartialEq, Eq)]
pub struct Case {
    pub ops: Vec<SOp>,
}

const LENS: [usize; 11] = [0, 1, 63, 64, 4095, 4096, 4097, 8191, 8192, 8193, 20000];

/// The container's comparison class of a logical name: UTF-16 length of the
/// reference-encoded name, then its upper-cased form (cfb's rule).
fn class_key(name: &str) -> (usize, String) {
    let enc = fmt::encode_name(name, false);
    (enc.encode_utf16().count(), enc.to_uppercase())
}

/// Names the reference considers well-formed stream names: non-empty, no
/// table marker in front, none of the container-reserved characters, no
/// character from the ranges the packing itself uses, no NUL, at most 31
/// UTF-16 units once packed.
fn well_formed(name: &str) -> bool {
    !name.is_empty()
        && !name.chars().any(|c| matches!(c, '/' | '\\' | ':' | '!' | '\0') || (0x3800..=0x4840).contains(&(c as u32)))
        && fmt::encode_name(name, false).encode_utf16().count() <= 31
}

/// Names that must be accepted (positive clause).
fn must_accept(name: &str) -> bool {
    well_formed(name) && name.chars().all(|c| c.is_ascii_alphanumeric() || c == '.' || c == '_' || c == ' ' || c == '-' || "¿Quépasa?".contains(c))
}

pub fn fixed_names() -> Vec<String> {
    let mut v: Vec<String> = [
        "a", "A", "Binary.a", "Binary", "Icon", "Z9", "Icon.AppIcon.ico", "_x", "0", "00", "a b", "a-b", "(x)", "$", "¿Qué pasa?", "é", "É", "ñ", "日本", "日本語.cab", "\u{3800}", "\u{3801}", "\u{47ff}", "\u{4800}",
        "\u{483f}", "\u{4840}", "\u{4840}X", "X\u{4840}", "\u{4841}", "/", "/X", "X/", "a/b", "a/../X", "..", ".", "./X", "a\\b", "a:b", ":", "a!b", "!", "\0", "a\0b", "\u{5}SummaryInformation", "\u{5}Notes", "\u{5}", "\u{5}DigitalSignature2",
        "\u{5}DigitalSignature", "\u{5}MsiDigitalSignatureEx", "\u{5}DocumentSummaryInformation", "_StringPool", "_StringData", "_Tables", "_Columns", "T1", "", " ", "straße", "STRASSE", "ǆ", "ǅ",
        "\u{10000}", "😀", "\u{fffd}", "\u{feff}x",
    ]
    .iter()
    .map(|s| s.to_string())
    .collect();
    // packable characters at every length around the 31-unit limit
    for n in [1usize, 2, 3, 30, 31, 59, 60, 61, 62, 63, 64, 100] {
        v.push("abcdefghijklmnopqrstuvwxyz0123456789._ABCDEFGHIJKLMNOPQRSTUVWXYZ".chars().cycle().take(n).collect());
    }
    // unpackable characters around the limit (one unit each)
    for n in [30usize, 31, 32] {
        v.push("-".repeat(n));
        v.push("é".repeat(n));
    }
    // mixed: an unpackable character breaks a pair
    v.push("a-".repeat(15));
    v.push("a-".repeat(16));
    v.push(format!("{}-", "ab".repeat(30)));
    v.push(format!("{}-", "ab".repeat(31)));
    v
}

fn name_strategy() -> impl Strategy<Value = String> {
    let fixed = fixed_names();
    prop_oneof![
        6 => prop::sample::select(fixed),
        2 => "[a-zA-Z0-9._]{1,8}",
        1 => "[a-zA-Z0-9._]{58,64}",
        1 => "[ -~]{1,6}",
        1 => "[a-c/\\\\:!.\u{3800}\u{4800}\u{4840}é]{1,4}",
        1 => "\\PC{1,5}",
        // a long packable head with a reserved character (container-reserved,
        // or from the ranges the packing itself uses) far from the start
        1 => ("[a-zA-Z0-9._]{30,58}", prop::sample::select(vec!['/', '\\', ':', '!', '\u{3800}', '\u{3b3f}', '\u{47ff}', '\u{4800}', '\u{4821}', '\u{4840}']), "[a-z]{0,2}").prop_map(|(head, c, tail)| format!("{head}{c}{tail}")),
        // long names of multi-byte characters around the 31-unit limit, with
        // a short ASCII prefix that shifts every byte offset
        1 => ("[a-c]{0,3}", prop::sample::select(vec!['é', '日', 'ж', '😀', 'ก']), 14usize..40).prop_map(|(p, c, n)| format!("{p}{}", c.to_string().repeat(n))),
    ]
}

fn op_strategy() -> impl Strategy<Value = SOp> {
    prop_oneof![
        10 => (name_strategy(), any::<u16>(), any::<u8>()).prop_map(|(n, l, f)| SOp::Write(n, l, f)),
        4 => name_strategy().prop_map(SOp::Remove),
        3 => name_strategy().prop_map(SOp::Read),
        3 => name_strategy().prop_map(SOp::Has),
        4 => (any::<u16>(), any::<u16>(), any::<u8>()).prop_map(|(s, l, f)| SOp::WriteLive(s, l, f)),
        4 => any::<u16>().prop_map(SOp::RemoveLive),
        3 => any::<u16>().prop_map(SOp::ReadLive),
        2 => any::<u8>().prop_map(SOp::TableInsert),
        2 => any::<u8>().prop_map(SOp::TableCreate),
        2 => any::<u8>().prop_map(SOp::TableDrop),
        1 => any::<bool>().prop_map(SOp::AddSignature),
        1 => Just(SOp::RemoveSignature),
        3 => any::<u8>().prop_map(SOp::Reopen),
    ]
}

struct State {
    pkg: Package<SharedBuf>,
    buf: SharedBuf,
    /// class -> (spellings written since the class became live, bytes last written)
    live: BTreeMap<(usize, String), (Vec<String>, Vec<u8>)>,
    table_rows: Vec<Vec<V>>,
    signed: (bool, bool),
    trace: Vec<String>,
}

fn content(len_sel: u16, fill: u8) -> Vec<u8> {
    let n = LENS[pick(len_sel, LENS.len())];
    (0..n).map(|i| fill.wrapping_add((i % 253) as u8)).collect()
}

/// Reads a whole stream in one of four ways (the bytes must be the same):
/// read_to_end on a fresh reader; a short read_exact and then read_to_end;
/// the second half after a seek, then the first half after seeking back;
/// plain read() calls of 1,000 bytes.
fn read_in_style<R: std::io::Read + std::io::Seek>(mut r: R, expected_len: usize, style: usize) -> std::io::Result<Vec<u8>> {
    use std::io::SeekFrom;
    let mut out = Vec::new();
    match style % 4 {
        0 => {
            r.read_to_end(&mut out)?;
        }
        1 => {
            let head = expected_len.min(4);
            let mut h = vec![0u8; head];
            r.read_exact(&mut h)?;
            out.extend_from_slice(&h);
            r.read_to_end(&mut out)?;
        }
        2 => {
            let mid = expected_len / 2;
            r.seek(SeekFrom::Start(mid as u64))?;
            let mut tail = Vec::new();
            r.read_to_end(&mut tail)?;
            r.seek(SeekFrom::Start(0))?;
            let mut h = vec![0u8; mid];
            r.read_exact(&mut h)?;
            out = h;
            out.extend_from_slice(&tail);
        }
        _ => {
            let mut piece = [0u8; 1000];
            loop {
                let n = r.read(&mut piece)?;
                if n == 0 {
                    break;
                }
                out.extend_from_slice(&piece[..n]);
            }
        }
    }
    Ok(out)
}

fn guard<R>(what: &str, trace: &[String], f: impl FnOnce() -> R) -> Result<R, Fail> {
    crate::engine::catch(f).map_err(|(loc, msg)| Fail::new(format!("{P} panic at={loc}"), format!("{what} panicked: {msg}; history: {}", trace.join("; "))))
}

fn verify(s: &mut State, deep: bool) -> Check {
    let t = s.trace.join("; ");
    // listing == live names, one spelling per class
    let listing: Vec<String> = guard("streams()", &s.trace, || s.pkg.streams().collect())?;
    let mut listed_classes: Vec<(usize, String)> = listing.iter().map(|n| class_key(n)).collect();
    listed_classes.sort();
    let want: Vec<(usize, String)> = s.live.keys().cloned().collect();
    if listed_classes != want {
        return Err(Fail::new(
            format!("{P} listing-differs"),
            format!("streams() lists {listing:?}; live names are {:?}; history: {t}", s.live.values().map(|v| v.0.last().cloned().unwrap_or_default()).collect::<Vec<_>>()),
        ));
    }
    for n in &listing {
        let (spellings, _) = &s.live[&class_key(n)];
        if !spellings.contains(n) {
            return Err(Fail::new(format!("{P} listing-spelling"), format!("streams() lists {n:?}, which was never written (written: {spellings:?}); history: {t}")));
        }
    }
    if deep {
        for (spellings, data) in s.live.values() {
            for n in spellings {
                let has = guard("has_stream", &s.trace, || s.pkg.has_stream(n))?;
                if !has {
                    return Err(Fail::new(format!("{P} has-stream-false"), format!("has_stream({n:?}) is false for a live stream; history: {t}")));
                }
                let style = data.len() + n.len();
                let got = guard("read_stream", &s.trace, || -> std::io::Result<Vec<u8>> { read_in_style(s.pkg.read_stream(n)?, data.len(), style) })?
                .map_err(|e| Fail::new(format!("{P} read-failed"), format!("read_stream({n:?}) failed: {e}; history: {t}")))?;
                if &got != data {
                    return Err(Fail::new(
                        format!("{P} content-differs"),
                        format!("stream {n:?} reads {} bytes, {} were last written under that name; history: {t}", got.len(), data.len()),
                    ));
                }
            }
        }
        // tables untouched by stream traffic
        let rows = read_rows(&mut s.pkg, "T1").map_err(|e| Fail::new(format!("{P} table-broken"), format!("{e}; history: {t}")))?;
        if rows != s.table_rows {
            return Err(Fail::new(format!("{P} table-changed"), format!("table T1 holds {rows:?}, expected {:?}; history: {t}", s.table_rows)));
        }
        if s.pkg.has_digital_signature() != s.signed.0 {
            return Err(Fail::new(format!("{P} signature-flag"), format!("has_digital_signature() = {}, expected {}; history: {t}", !s.signed.0, s.signed.0)));
        }
    }
    Ok(())
}

/// The raw root-storage entries seen through the container: exactly the
/// reference-encoded live names plus table / pool / summary / signature streams.
fn verify_raw(bytes: &[u8], s: &State) -> Check {
    let t = s.trace.join("; ");
    let d = fmt::decode(bytes).map_err(|e| Fail::new(format!("{P} file-undecodable"), format!("{e}; history: {t}")))?;
    let mut expected: Vec<String> = Vec::new();
    for (spellings, _) in s.live.values() {
        // any of the spellings of the class may be the stored one
        let found = spellings.iter().map(|n| fmt::encode_name(n, false)).find(|raw| d.raw_streams.contains_key(raw));
        match found {
            Some(raw) => expected.push(raw),
            None => {
                return Err(Fail::new(
                    format!("{P} raw-entry-missing"),
                    format!("no root entry carries the packed name of live stream {:?}; root streams: {:?}; history: {t}", spellings, d.raw_streams.keys().collect::<Vec<_>>()),
                ))
            }
        }
    }
    for raw in d.raw_streams.keys() {
        let internal = raw.starts_with('\u{4840}') || raw == fmt::SUMMARY_STREAM || raw == fmt::SIGNATURE_STREAM || raw == fmt::SIGNATURE_EX_STREAM;
        if !internal && !expected.contains(raw) {
            return Err(Fail::new(format!("{P} raw-entry-unexpected"), format!("root entry {raw:?} belongs to no live stream; history: {t}")));
        }
    }
    let has_sig = d.raw_streams.contains_key(fmt::SIGNATURE_STREAM);
    let has_ex = d.raw_streams.contains_key(fmt::SIGNATURE_EX_STREAM);
    if (has_sig, has_ex) != s.signed {
        return Err(Fail::new(format!("{P} signature-entries"), format!("signature entries present: {:?}, expected {:?}; history: {t}", (has_sig, has_ex), s.signed)));
    }
    if !d.raw_storages.is_empty() {
        return Err(Fail::new(format!("{P} raw-storage-created"), format!("root storage now contains storages {:?}; history: {t}", d.raw_storages)));
    }
    Ok(())
}

pub fn check_case(case: &Case, st: &mut Stats) -> Check {
    let buf = SharedBuf::new(Vec::new());
    let mut pkg = Package::create(PackageType::Installer, buf.clone()).map_err(|e| Fail::new(format!("{P} unexpected-error op=Create"), e.to_string()))?;
    pkg.create_table("T1", vec![Column::build("k").primary_key().int16(), Column::build("v").nullable().string(0)]).map_err(|e| Fail::new(format!("{P} unexpected-error op=CreateTable"), e.to_string()))?;
    let mut s = State { pkg, buf, live: BTreeMap::new(), table_rows: vec![], signed: (false, false), trace: vec![] };
    let mut interesting = 0;
    for op in &case.ops {
        // late-bound ops resolve to a live spelling
        let live_name = |sel: u16, s: &State| -> Option<String> {
            let all: Vec<&String> = s.live.values().flat_map(|v| v.0.iter()).collect();
            if all.is_empty() {
                None
            } else {
                Some(all[pick(sel, all.len())].clone())
            }
        };
        let resolved: SOp = match op {
            SOp::WriteLive(sel, l, f) => match live_name(*sel, &s) {
                Some(n) => SOp::Write(n, *l, *f),
                None => continue,
            },
            SOp::RemoveLive(sel) => match live_name(*sel, &s) {
                Some(n) => SOp::Remove(n),
                None => continue,
            },
            SOp::ReadLive(sel) => match live_name(*sel, &s) {
                Some(n) => SOp::Read(n),
                None => continue,
            },
            other => other.clone(),
        };
        match &resolved {
            SOp::WriteLive(..) | SOp::RemoveLive(_) | SOp::ReadLive(_) => unreachable!(),
            SOp::Write(name, len_sel, fill) => {
                let data = content(*len_sel, *fill);
                s.trace.push(format!("write({name:?}, {} bytes)", data.len()));
                // the same bytes reach the writer in one piece or in several:
                // many small pieces, block-sized pieces, a small piece followed
                // by a large one (the order a buffering writer must keep)
                let pieces = crate::seq::piece_lengths(data.len(), *fill);
                if pieces.len() > 1 {
                    st.class("write:in-pieces");
                }
                let res = guard("write_stream", &s.trace, || -> std::io::Result<()> {
                    let mut w = s.pkg.write_stream(name)?;
                    let mut at = 0;
                    for p in &pieces {
                        w.write_all(&data[at..at + p])?;
                        at += p;
                    }
                    w.flush()
                })?;
                match res {
                    Ok(()) => {
                        let key = class_key(name);
                        if s.live.contains_key(&key) {
                            interesting += 1;
                            st.class("overwrite");
                        }
                        let e = s.live.entry(key).or_insert((vec![], vec![]));
                        if !e.0.contains(name) {
                            e.0.push(name.clone());
                        }
                        e.1 = data;
                        st.class(if well_formed(name) { "write:well-formed-name" } else { "write:accepted-odd-name" });
                    }
                    Err(e) => {
                        if must_accept(name) {
                            return Err(Fail::new(format!("{P} refused-ordinary-name"), format!("write_stream({name:?}) failed: {e}; history: {}", s.trace.join("; "))));
                        }
                        st.class("write:refused");
                    }
                }
            }
            SOp::Remove(name) => {
                s.trace.push(format!("remove({name:?})"));
                let res = guard("remove_stream", &s.trace, || s.pkg.remove_stream(name))?;
                let key = class_key(name);
                match (res, s.live.contains_key(&key)) {
                    (Ok(()), true) => {
                        s.live.remove(&key);
                        interesting += 1;
                        st.class("remove");
                    }
                    (Ok(()), false) => {
                        return Err(Fail::new(format!("{P} removed-nonexistent"), format!("remove_stream({name:?}) succeeded although no such stream is live; history: {}", s.trace.join("; "))));
                    }
                    (Err(e), true) => {
                        // a name the library refuses names no stream, even if its
                        // packed form coincides with a live stream's
                        if well_formed(name) {
                            return Err(Fail::new(format!("{P} remove-failed"), format!("remove_stream({name:?}) failed for a live stream: {e}; history: {}", s.trace.join("; "))));
                        }
                    }
                    (Err(_), false) => {}
                }
            }
            SOp::Read(name) => {
                s.trace.push(format!("read({name:?})"));
                let res = guard("read_stream", &s.trace, || -> std::io::Result<Vec<u8>> {
                    let mut b = Vec::new();
                    s.pkg.read_stream(name)?.read_to_end(&mut b)?;
                    Ok(b)
                })?;
                let key = class_key(name);
                match (res, s.live.get(&key)) {
                    (Ok(b), Some((_, data))) => {
                        if &b != data {
                            return Err(Fail::new(format!("{P} content-differs"), format!("read_stream({name:?}) returned {} bytes, {} were written; history: {}", b.len(), data.len(), s.trace.join("; "))));
                        }
                    }
                    (Ok(b), None) => {
                        return Err(Fail::new(format!("{P} read-nonexistent"), format!("read_stream({name:?}) returned {} bytes although no such stream was written; history: {}", b.len(), s.trace.join("; "))));
                    }
                    (Err(e), Some(_)) => {
                        if well_formed(name) {
                            return Err(Fail::new(format!("{P} read-failed"), format!("read_stream({name:?}) failed for a live stream: {e}; history: {}", s.trace.join("; "))));
                        }
                    }
                    (Err(_), None) => {}
                }
            }
            SOp::Has(name) => {
                s.trace.push(format!("has({name:?})"));
                let has = guard("has_stream", &s.trace, || s.pkg.has_stream(name))?;
                if well_formed(name) && has != s.live.contains_key(&class_key(name)) {
                    return Err(Fail::new(format!("{P} has-stream-wrong"), format!("has_stream({name:?}) = {has}; history: {}", s.trace.join("; "))));
                }
            }
            SOp::TableInsert(k) => {
                let key = (*k % 40) as i32 + 1;
                if s.table_rows.iter().any(|r| r[0] == V::Int(key)) {
                    continue;
                }
                s.trace.push(format!("insert(T1, {key})"));
                let text = format!("Binary.{key}");
                s.pkg.insert_rows(Insert::into("T1").row(vec![Value::Int(key), Value::Str(text.clone())])).map_err(|e| Fail::new(format!("{P} unexpected-error op=Insert"), e.to_string()))?;
                s.table_rows.push(vec![V::Int(key), V::Str(text)]);
                s.table_rows.sort();
            }
            SOp::TableCreate(k) | SOp::TableDrop(k) => {
                let name = ["Binary", "Icon", "Z9", "A"][(*k % 4) as usize];
                let create = matches!(&resolved, SOp::TableCreate(_));
                s.trace.push(format!("{}({name})", if create { "create_table" } else { "drop_table" }));
                // Ok or Err (exists / does not exist) are both fine; streams must not be affected
                let _ = guard("table op", &s.trace, || {
                    if create {
                        s.pkg.create_table(name, vec![Column::build("k").primary_key().int16(), Column::build("v").nullable().string(0)]).and_then(|_| s.pkg.insert_rows(Insert::into(name).row(vec![Value::Int(1), Value::from(name)])))
                    } else {
                        s.pkg.drop_table(name)
                    }
                })?;
                st.class(if create { "table-created" } else { "table-dropped" });
            }
            SOp::AddSignature(with_ex) => {
                // sign the saved file through the container, as a signing tool would
                s.trace.push(format!("sign(ex={with_ex})"));
                let t = s.trace.join("; ");
                s.pkg.flush().map_err(|e| Fail::new(format!("{P} unexpected-error op=Flush"), format!("{e}; history: {t}")))?;
                let bytes = s.buf.contents();
                let mut comp = cfb::CompoundFile::open(std::io::Cursor::new(bytes)).map_err(|e| Fail::new(format!("{P} file-undecodable"), format!("{e}; history: {t}")))?;
                let mut put = |name: &str| -> std::io::Result<()> {
                    let mut w = comp.create_stream(format!("/{name}"))?;
                    w.write_all(b"signature bytes")?;
                    w.flush()
                };
                put(fmt::SIGNATURE_STREAM).map_err(|e| Fail::new(format!("{P} harness-sign"), e.to_string()))?;
                if *with_ex {
                    put(fmt::SIGNATURE_EX_STREAM).map_err(|e| Fail::new(format!("{P} harness-sign"), e.to_string()))?;
                }
                comp.flush().map_err(|e| Fail::new(format!("{P} harness-sign"), e.to_string()))?;
                let signed_bytes = comp.into_inner().into_inner();
                s.buf = SharedBuf::new(signed_bytes);
                s.pkg = Package::open(s.buf.clone()).map_err(|e| Fail::new(format!("{P} reopen-error"), format!("{e}; history: {t}")))?;
                s.signed = (true, *with_ex || s.signed.1);
                st.class("signed");
            }
            SOp::RemoveSignature => {
                s.trace.push("remove_digital_signature".into());
                guard("remove_digital_signature", &s.trace, || s.pkg.remove_digital_signature())?
                    .map_err(|e| Fail::new(format!("{P} remove-signature-failed"), format!("{e}; history: {}", s.trace.join("; "))))?;
                if s.signed.0 {
                    interesting += 1;
                    st.class("signature-removed");
                }
                s.signed = (false, false);
            }
            SOp::Reopen(mode) => {
                s.trace.push(format!("reopen({})", mode % 3));
                let t = s.trace.join("; ");
                verify(&mut s, true)?;
                let State { pkg, buf, .. } = s;
                let bytes = match mode % 3 {
                    0 => {
                        let mut pkg = pkg;
                        pkg.flush().map_err(|e| Fail::new(format!("{P} unexpected-error op=Flush"), format!("{e}; history: {t}")))?;
                        let b = buf.contents();
                        drop(pkg);
                        b
                    }
                    1 => pkg.into_inner().map_err(|e| Fail::new(format!("{P} unexpected-error op=IntoInner"), format!("{e}; history: {t}")))?.contents(),
                    _ => {
                        drop(pkg);
                        buf.contents()
                    }
                };
                let nb = SharedBuf::new(bytes.clone());
                let pkg = Package::open(nb.clone()).map_err(|e| Fail::new(format!("{P} reopen-error"), format!("the saved file does not open: {e}; history: {t}")))?;
                s = State { pkg, buf: nb, live: s.live, table_rows: s.table_rows, signed: s.signed, trace: s.trace };
                verify_raw(&bytes, &s)?;
                verify(&mut s, true)?;
                continue;
            }
        }
        verify(&mut s, false)?;
    }
    verify(&mut s, true)?;
    let t = s.trace.join("; ");
    s.pkg.flush().map_err(|e| Fail::new(format!("{P} unexpected-error op=Flush"), format!("{e}; history: {t}")))?;
    let bytes = s.buf.contents();
    verify_raw(&bytes, &s)?;
    if s.live.len() >= 2 || interesting > 0 {
        st.nontrivial(case);
    }
    Ok(())
}

pub fn run(ctx: &Ctx) -> Report {
    let mut rep = Report::new(
        "exploration",
        "sequences of stream write / overwrite / remove / read / has over names from: packable characters at every length around the 31-unit limit (61, 62, 63 characters), unpackable ASCII and non-ASCII text, characters inside U+3800..U+4840 (the packing's own ranges), the table marker first and elsewhere, '/', '\\', ':', '!', NUL, '.', '..', case variants of non-ASCII letters, names of the package's internal streams, generated strings; contents of {0,1,63,64,4095,4096,4097,8191,8192,8193,20000} bytes; interleaved with table inserts, digital-signature streams added through the container and removed through the API, and reopen in all three close modes. Oracle: model map keyed by the container's comparison class of the reference-packed name; after every step streams() == live names; has / read agree; at reopen and at the end the raw root entries seen through the container are exactly the packed live names plus table / pool / summary / signature streams; no call panics. Non-trivial = at least two live streams, or an overwrite / removal; distinct by op list.",
    );
    rep.assumptions.push("names that are equal under the container's comparison (same packed length, same upper-cased form) are one stream".into());
    let mut st = Stats::new();
    let max_ops = ctx.tier.pick(14, 30);
    let v = search(ctx, "streams", ctx.tier.pick(120_000, 1_200_000), || prop::collection::vec(op_strategy(), 0..max_ops).prop_map(|ops| Case { ops }), |c: &Case, st| {
        st.eval();
        if st.wants_sample() && c.ops.len() > 4 && st.evaluations % 31 == 2 {
            st.sample(json!(c));
        }
        check_case(c, st)
    }, &mut st);
    rep.push(v);
    // every fixed name on its own: write, list, read, reopen, remove
    let names = fixed_names();
    let v = crate::engine::par_enumerate(ctx, "streams", &names.iter().map(|n| Case { ops: vec![SOp::Write(n.clone(), 30000, 7), SOp::Has(n.clone()), SOp::Reopen(1), SOp::Read(n.clone()), SOp::Write("Other".into(), 0, 1), SOp::Remove(n.clone()), SOp::Reopen(0)] }).collect::<Vec<_>>(), |c, st| {
        st.eval();
        st.class("fixed-name-cycle");
        check_case(c, st)
    }, &mut st);
    rep.push(v);
    rep.stats = st;
    rep
}

pub fn replay(_ctx: &Ctx, doc: &J) -> Check {
    let mut st = Stats::new();
    match doc["kind"].as_str().unwrap_or("") {
        "streams" => check_case(&serde_json::from_value::<Case>(doc["case"].clone()).map_err(|e| Fail::new(format!("{P} bad-replay"), e.to_string()))?, &mut st),
        k => Err(Fail::new(format!("{P} bad-replay"), format!("unknown case kind {k:?}"))),
    }
}
