//! C04 — rejected operations change nothing.

use crate::engine::{search, Check, Ctx, Fail, Report, Stats};
use crate::fmt;
use crate::media::SharedBuf;
use crate::model::{ColDef, Ty};
use crate::observe::{observe, Snapshot};
use crate::props::c08::check_file;
use crate::refeval::V;
use crate::seq::{self, pick, OpSeed, Profile, Run, Weights};
use msi::{Column, Delete, Expr, Insert, Package, Select, Update, Value};
use proptest::prelude::*;
use serde::{Deserialize, Serialize};
use serde_json::{json, Value as J};
use std::io::Read;

const P: &str = "C04";

pub const W_PREFIX: Weights = Weights { create: 10, drop: 1, insert: 12, update: 4, delete: 2, select: 0, wstream: 3, rstream: 1, summary: 2, sum_cp: 0, db_cp: 1, flush: 1, reopen: 2 };
pub const PROFILE: Profile = Profile { name: "reject", allow_empty: true, allow_key_update: false, allow_long: false, codepages: true, non_ascii: true, try_invalid: false };

/// The catalogue of invalid calls (selectors are resolved against the state
/// reached by the prefix).
#[derive(Clone, Debug, Serialize, Deserialize, Hash, PartialEq, Eq)]
pub enum Bad {
    CreateBadName(u8),
    CreateExisting(u16),
    CreateNoColumns,
    CreateTooManyColumns(u8),
    CreateNoKey,
    CreateDuplicateColumn,
    CreateBadColumnName(u8),
    /// failures that are only discovered late: 0 column name of 33..64 chars,
    /// 1 table name of 33..60 chars, 2 width above 255, 3 enumeration joined
    /// text beyond 255 chars, 4 range including i32::MIN, 5 malformed foreign
    /// key, 6 enum value with ';', 7 bad foreign key column number
    CreateLate(u8, u8),
    DropBad(u8),
    InsertUnknownTable,
    InsertArity(u16, u8),
    /// (table, which column, how invalid, position of the bad row in a batch of 3)
    InsertInvalidValue(u16, u16, u8, u8),
    InsertDuplicateExisting(u16, u16, u8),
    InsertDuplicateInBatch(u16, u8),
    UpdateUnknownTable,
    UpdateUnknownSetColumn(u16),
    UpdateUnknownWhereColumn(u16),
    UpdateInvalidValue(u16, u16, u8),
    UpdateKeyCollision(u16),
    /// assign "" to the key of one row while another row's key is null / empty
    /// (the two are one key); 0 the other row was inserted with "", 1 with null
    UpdateKeyToEmpty(u8),
    DeleteUnknownTable,
    DeleteUnknownWhereColumn(u16),
    SelectUnknown(u16, u8),
    StreamBadName(u8, u8),
    StreamMissing(u8),
    /// drop_table on a name that is not a table although `_Validation` still
    /// holds rows for it (validation templates ship such rows)
    DropGhost(u8),
    /// a batch that would take a table of 65,535 or 65,536 rows past the row
    /// limit (runs for one selector value in eight: the table is expensive)
    InsertOverRowLimit(u8),
    /// an insert / update / create_table that needs one more string than a
    /// full pool (65,535 entries) can take (runs for one selector value in 16)
    PoolFull(u8),
    /// the session continues on a foreign file that has no `_Validation`
    /// table (transforms and stripped packages), where table creation is
    /// refused: (kind, n) as for CreateLate for kind % 10 < 8, 8 = a creation
    /// that would be valid elsewhere, 9 = a creation without a key column
    NoValidation(u8, u8),
    /// create_table under a name about which one catalog table already holds
    /// an orphan row, put there through insert_rows (0 `_Tables`, 1 `_Columns`,
    /// 2 `_Validation`): the refusal must leave that row where it was
    CreateOverOrphan(u8),
}

#[derive(Clone, Debug, Serialize, Deserialize, Hash, PartialEq, Eq)]
pub struct Case {
    pub ptype: u8,
    pub prefix: Vec<OpSeed>,
    pub bad: Bad,
}

fn long_ident(n: usize) -> String {
    let mut s = String::from("N");
    while s.len() < n {
        s.push((b'a' + (s.len() % 26) as u8) as char);
    }
    s
}

/// A value that is invalid for the column in the given way, if there is one.
fn invalid_for(c: &ColDef, how: u8) -> Option<V> {
    match how % 6 {
        0 => {
            if c.nullable {
                None
            } else {
                Some(V::Null)
            }
        }
        1 => match c.ty {
            Ty::Str(_) => Some(V::Int(1)),
            _ => Some(V::Str("text".into())),
        },
        2 => match c.ty {
            Ty::I16 => Some(V::Int(32768)),
            Ty::I32 => Some(V::Int(i32::MIN)),
            Ty::Str(w) if w > 0 => Some(V::Str("x".repeat(w + 1))),
            _ => None,
        },
        3 => match c.ty {
            Ty::I16 => Some(V::Int(-32768)),
            _ => c.range.and_then(|(_, hi)| hi.checked_add(1)).map(V::Int),
        },
        4 => {
            if !c.enums.is_empty() {
                Some(V::Str("not-in-the-enumeration".into()))
            } else {
                None
            }
        }
        _ => match c.category.map(|k| k.name()) {
            Some("Identifier") => Some(V::Str("9 not an identifier".into())),
            Some("GUID") => Some(V::Str("{not-a-guid}".into())),
            Some("Version") => Some(V::Str("1.2.3.4.5".into())),
            Some("Language") => Some(V::Str("en-US".into())),
            Some("Integer") => Some(V::Str("40000".into())),
            Some("UpperCase") => Some(V::Str("lower".into())),
            Some("LowerCase") => Some(V::Str("UPPER".into())),
            _ => None,
        },
    }
    .filter(|v| c.valid_ref(v) == Some(false))
}

/// Performs the invalid call.  `None`: not applicable in this state.
fn perform(run: &mut Run, bad: &Bad) -> Option<(String, std::io::Result<()>)> {
    let tables: Vec<String> = run.model.tables.keys().cloned().collect();
    let table_at = |sel: u16| -> Option<String> { if tables.is_empty() { None } else { Some(tables[pick(sel, tables.len())].clone()) } };
    let key_col = || Column::build("k").primary_key().int16();
    let fresh_row = |run: &Run, t: &str, salt: i32| -> Vec<V> {
        let mt = &run.model.tables[t];
        mt.cols.iter().enumerate().map(|(i, c)| run.valid_value(c, &seq::ValSeed { class: 0, int_sel: salt.wrapping_mul(7919).wrapping_add(i as i32), str_sel: (salt as u16).wrapping_mul(31).wrapping_add(i as u16 * 977) })).collect()
    };
    let to_row = |r: &[V]| -> Vec<Value> { r.iter().map(|v| v.to_msi()).collect() };
    match bad {
        Bad::CreateBadName(k) => {
            let name = ["", "9x", "a b", "_Tables", "_Columns", "_Validation", "naïve", "a;b"][(*k % 8) as usize].to_string();
            let name = if *k % 16 == 15 { long_ident(61) } else { name };
            let r = run.pkg().create_table(name.as_str(), vec![key_col()]);
            Some((format!("create_table({name:?})"), r))
        }
        Bad::CreateExisting(sel) => {
            let t = table_at(*sel)?;
            let r = run.pkg().create_table(t.as_str(), vec![key_col()]);
            Some((format!("create_table(existing {t:?})"), r))
        }
        Bad::CreateNoColumns => Some(("create_table(no columns)".into(), run.pkg().create_table("Fresh", vec![]))),
        Bad::CreateTooManyColumns(extra) => {
            let n = 33 + (*extra % 3) as usize;
            let mut cols = vec![key_col()];
            for i in 1..n {
                cols.push(Column::build(format!("c{i}")).nullable().int16());
            }
            Some((format!("create_table({n} columns)"), run.pkg().create_table("Fresh", cols)))
        }
        Bad::CreateNoKey => Some(("create_table(no key)".into(), run.pkg().create_table("Fresh", vec![Column::build("a").int16(), Column::build("b").string(8)]))),
        Bad::CreateDuplicateColumn => Some(("create_table(duplicate column)".into(), run.pkg().create_table("Fresh", vec![key_col(), Column::build("v").int16(), Column::build("v").string(3)]))),
        Bad::CreateBadColumnName(k) => {
            let n = ["", "1a", "a b", "é", "a-b"][(*k % 5) as usize];
            Some((format!("create_table(column {n:?})"), run.pkg().create_table("Fresh", vec![key_col(), Column::build(n).nullable().int16()])))
        }
        Bad::CreateLate(kind, n) => {
            let good = Column::build("Name").nullable().string(16);
            let (table, cols): (String, Vec<Column>) = match kind % 8 {
                0 => ("Fresh".into(), vec![key_col(), good, Column::build(long_ident(33 + (*n % 32) as usize)).nullable().int16()]),
                1 => (long_ident(33 + (*n % 28) as usize), vec![key_col(), good]),
                2 => ("Fresh".into(), vec![key_col(), good, Column::build("w").nullable().string([256usize, 300, 512, 65535, 0x8000, 70000][(*n % 6) as usize])]),
                3 => {
                    let a = "x".repeat(200);
                    let b = "y".repeat(100);
                    ("Fresh".into(), vec![key_col(), good, Column::build("e").nullable().enum_values(&[a.as_str(), b.as_str()]).string(0)])
                }
                4 => ("Fresh".into(), vec![key_col(), good, Column::build("r").nullable().range(i32::MIN, 5).int32()]),
                5 => ("Fresh".into(), vec![key_col(), good, Column::build("f").nullable().foreign_key(["not an identifier", "", "9x"][(*n % 3) as usize], 1).int16()]),
                6 => ("Fresh".into(), vec![key_col(), good, Column::build("e").nullable().enum_values(&["a;b", "c"]).string(0)]),
                _ => ("Fresh".into(), vec![key_col(), good, Column::build("f").nullable().foreign_key("Other", [0, 33, -1, 40000][(*n % 4) as usize]).int16()]),
            };
            let r = run.pkg().create_table(table.as_str(), cols);
            Some((format!("create_table(late-failing definition kind {})", kind % 8), r))
        }
        Bad::DropBad(k) => {
            let n = ["NoSuchTable", "_Tables", "_Columns", "_Validation", "", "9x"][(*k % 6) as usize];
            Some((format!("drop_table({n:?})"), run.pkg().drop_table(n)))
        }
        Bad::DropGhost(_) => Some(("drop_table(\"Ghost\"), which is no table but has _Validation rows".into(), run.pkg().drop_table("Ghost"))),
        Bad::InsertOverRowLimit(k) => {
            let start = 70_000;
            let extra = if (k / 8) % 2 == 0 { 2 } else { 5 };
            let rows: Vec<Vec<Value>> = (0..extra).map(|i| vec![Value::Int(start + i), Value::from(format!("over the limit {i}"))]).collect();
            Some((format!("insert(Full, {extra} more rows)"), run.pkg().insert_rows(Insert::into("Full").rows(rows))))
        }
        Bad::CreateOverOrphan(k) => {
            // the definition itself is storable (0) or fails late in one of
            // the ways of CreateLate (1..=6)
            let good = Column::build("Name").nullable().string(16);
            let (how, cols): (&str, Vec<Column>) = match (k / 3) % 7 {
                0 => ("storable definition", vec![key_col(), good]),
                1 => ("column name of 40 characters", vec![key_col(), good, Column::build(long_ident(40)).nullable().int16()]),
                2 => ("width 300", vec![key_col(), good, Column::build("w").nullable().string(300)]),
                3 => ("range from i32::MIN", vec![key_col(), good, Column::build("r").nullable().range(i32::MIN, 5).int32()]),
                4 => ("malformed foreign key", vec![key_col(), good, Column::build("f").nullable().foreign_key("not an identifier", 1).int16()]),
                5 => ("enumeration value with ';'", vec![key_col(), good, Column::build("e").nullable().enum_values(&["a;b", "c"]).string(0)]),
                _ => ("foreign key column 0", vec![key_col(), good, Column::build("f").nullable().foreign_key("Other", 0).int16()]),
            };
            Some((format!("create_table(\"Ghost\", {how}), about which a catalog table holds an orphan row"), run.pkg().create_table("Ghost", cols)))
        }
        Bad::NoValidation(kind, n) => match kind % 10 {
            8 => Some(("create_table(Fresh, valid columns) on a database without _Validation".into(), run.pkg().create_table("Fresh", vec![key_col(), Column::build("Name").nullable().string(16)]))),
            9 => Some(("create_table(Fresh, no key column) on a database without _Validation".into(), run.pkg().create_table("Fresh", vec![Column::build("Name").nullable().string(16)]))),
            k => perform(run, &Bad::CreateLate(k, *n)).map(|(what, r)| (format!("{what} on a database without _Validation"), r)),
        },
        Bad::PoolFull(k) => match (k / 16) % 5 {
            4 => Some((
                "update(U) assigning three strings new to a pool that has one free entry".into(),
                run.pkg().update_rows(Update::table("U").set("a", Value::from("new-a")).set("b", Value::from("new-b")).set("c", Value::from("new-c"))),
            )),
            3 => Some((
                "create_table(Extra) whose three names fit into the pool but whose enumeration does not".into(),
                run.pkg().create_table("Extra", vec![Column::build("FirstNewName").primary_key().int16(), Column::build("SecondNewName").nullable().enum_values(&["A", "B"]).string(8)]),
            )),
            0 => Some(("insert(S, one row with a string new to the full pool)".into(), run.pkg().insert_rows(Insert::into("S").row(vec![Value::from("one string too many")])))),
            1 => Some((
                "insert(S, a row with a pooled string, then a row with a new one)".into(),
                run.pkg().insert_rows(Insert::into("S").row(vec![Value::from("t")]).row(vec![Value::from("one string too many")])),
            )),
            _ => Some((
                "create_table(Extra) whose names are new to the full pool".into(),
                run.pkg().create_table("Extra", vec![Column::build("FirstNewName").primary_key().int16(), Column::build("SecondNewName").nullable().int16()]),
            )),
        },
        Bad::InsertUnknownTable => Some(("insert(unknown table)".into(), run.pkg().insert_rows(Insert::into("NoSuchTable").row(vec![Value::Int(1)])))),
        Bad::InsertArity(sel, n) => {
            let t = table_at(*sel)?;
            let cols = run.model.tables[&t].cols.len();
            let arity = (*n % 34) as usize;
            if arity == cols {
                return None;
            }
            let mut row = fresh_row(run, &t, 77);
            row.truncate(arity);
            while row.len() < arity {
                row.push(V::Int(1));
            }
            // preceded by a valid row with fresh strings
            let first = fresh_row(run, &t, 1234);
            let r = run.pkg().insert_rows(Insert::into(t.as_str()).row(to_row(&first)).row(to_row(&row)));
            Some((format!("insert({t}, valid row, then a row of {arity} values for {cols} columns)"), r))
        }
        Bad::InsertInvalidValue(sel, col, how, pos) => {
            let t = table_at(*sel)?;
            let mt = run.model.tables[&t].clone();
            let ci = pick(*col, mt.cols.len());
            let v = invalid_for(&mt.cols[ci], *how)?;
            let mut rows: Vec<Vec<V>> = (0..3).map(|i| fresh_row(run, &t, 500 + i * 13)).collect();
            // keep the batch otherwise valid: distinct keys
            for (i, r) in rows.iter_mut().enumerate() {
                for (c, cell) in mt.cols.iter().zip(r.iter_mut()) {
                    if c.key {
                        if let (Ty::Str(_), V::Str(s)) = (c.ty, &cell) {
                            let mut s = s.clone();
                            s.push(char::from(b'A' + i as u8));
                            if c.valid_ref(&V::Str(s.clone())) == Some(true) {
                                *cell = V::Str(s);
                            }
                        }
                    }
                }
            }
            let p = (*pos % 3) as usize;
            rows[p][ci] = v.clone();
            let r = run.pkg().insert_rows(Insert::into(t.as_str()).rows(rows.iter().map(|r| to_row(r)).collect()));
            Some((format!("insert({t}, 3 rows, row {p} holds {v:?} in column {})", mt.cols[ci].name), r))
        }
        Bad::InsertDuplicateExisting(sel, row, pos) => {
            let t = table_at(*sel)?;
            let mt = run.model.tables[&t].clone();
            if mt.rows.is_empty() {
                return None;
            }
            let existing: Vec<V> = mt.rows.values().nth(pick(*row, mt.rows.len())).unwrap().clone();
            // an existing row re-inserted: its cells may be canonical nulls for
            // non-nullable string columns; give those a valid value again
            let dup: Vec<V> = mt.cols.iter().zip(existing.iter()).map(|(c, v)| if c.valid_ref(v) == Some(false) && !c.key { V::Str(String::new()) } else { v.clone() }).collect();
            if mt.cols.iter().zip(dup.iter()).any(|(c, v)| c.valid_ref(v) != Some(true)) {
                return None;
            }
            let mut rows = vec![fresh_row(run, &t, 900), fresh_row(run, &t, 901)];
            rows.insert((*pos % 3) as usize, dup);
            let r = run.pkg().insert_rows(Insert::into(t.as_str()).rows(rows.iter().map(|r| to_row(r)).collect()));
            Some((format!("insert({t}, batch containing a row whose key already exists)"), r))
        }
        Bad::InsertDuplicateInBatch(sel, pos) => {
            let t = table_at(*sel)?;
            let a = fresh_row(run, &t, 321);
            let b = fresh_row(run, &t, 654);
            let rows = match pos % 3 {
                0 => vec![a.clone(), a.clone(), b],
                1 => vec![a.clone(), b, a.clone()],
                _ => vec![b, a.clone(), a.clone()],
            };
            let r = run.pkg().insert_rows(Insert::into(t.as_str()).rows(rows.iter().map(|r| to_row(r)).collect()));
            Some((format!("insert({t}, batch with the same key twice)"), r))
        }
        Bad::UpdateUnknownTable => Some(("update(unknown table)".into(), run.pkg().update_rows(Update::table("NoSuchTable").set("a", Value::Int(1))))),
        Bad::UpdateUnknownSetColumn(sel) => {
            let t = table_at(*sel)?;
            Some((format!("update({t} set NoSuchColumn)"), run.pkg().update_rows(Update::table(t.as_str()).set("NoSuchColumn", Value::Int(1)))))
        }
        Bad::UpdateUnknownWhereColumn(sel) => {
            let t = table_at(*sel)?;
            let mt = run.model.tables[&t].clone();
            let c = mt.cols.iter().find(|c| !c.key)?;
            let v = run.valid_value(c, &seq::ValSeed { class: 0, int_sel: 5, str_sel: 7 });
            Some((format!("update({t} where NoSuchColumn)"), run.pkg().update_rows(Update::table(t.as_str()).set(c.name.as_str(), v.to_msi()).with(Expr::col("NoSuchColumn").eq(Expr::integer(1))))))
        }
        Bad::UpdateInvalidValue(sel, col, how) => {
            let t = table_at(*sel)?;
            let mt = run.model.tables[&t].clone();
            let ci = pick(*col, mt.cols.len());
            let v = invalid_for(&mt.cols[ci], *how)?;
            // a valid assignment first, then the invalid one
            let mut q = Update::table(t.as_str());
            if let Some(c) = mt.cols.iter().enumerate().find(|(i, c)| !c.key && *i != ci) {
                q = q.set(c.1.name.as_str(), run.valid_value(c.1, &seq::ValSeed { class: 0, int_sel: 3, str_sel: 40000 }).to_msi());
            }
            q = q.set(mt.cols[ci].name.as_str(), v.to_msi());
            Some((format!("update({t} set {} = {v:?})", mt.cols[ci].name), run.pkg().update_rows(q)))
        }
        Bad::UpdateKeyCollision(sel) => {
            let t = table_at(*sel)?;
            let mt = run.model.tables[&t].clone();
            if mt.rows.len() < 2 {
                return None;
            }
            let mut q = Update::table(t.as_str());
            let first = mt.rows.values().next().unwrap();
            for (i, c) in mt.cols.iter().enumerate() {
                if c.key {
                    let v = if c.valid_ref(&first[i]) == Some(true) { first[i].clone() } else { return None };
                    q = q.set(c.name.as_str(), v.to_msi());
                }
            }
            // also touch a string column so that a half-applied update would move pool references
            if let Some(c) = mt.cols.iter().find(|c| !c.key && matches!(c.ty, Ty::Str(_))) {
                q = q.set(c.name.as_str(), run.valid_value(c, &seq::ValSeed { class: 0, int_sel: 1, str_sel: 50000 }).to_msi());
            }
            Some((format!("update({t} set every key column to the first row's key)"), run.pkg().update_rows(q)))
        }
        Bad::UpdateKeyToEmpty(_) => {
            // the table was set up by `prepare`
            let q = Update::table("EmptyKey").set("k", Value::Str(String::new())).set("v", Value::from("renamed")).with(Expr::col("k").eq(Expr::string("beta")));
            Some(("update(EmptyKey set k = '', v = 'renamed' where k = 'beta') while a row with an empty key exists".into(), run.pkg().update_rows(q)))
        }
        Bad::DeleteUnknownTable => Some(("delete(unknown table)".into(), run.pkg().delete_rows(Delete::from("NoSuchTable")))),
        Bad::DeleteUnknownWhereColumn(sel) => {
            let t = table_at(*sel)?;
            Some((format!("delete({t} where NoSuchColumn)"), run.pkg().delete_rows(Delete::from(t.as_str()).with(Expr::col("NoSuchColumn").eq(Expr::integer(1))))))
        }
        Bad::SelectUnknown(sel, k) => {
            let t = table_at(*sel).unwrap_or_else(|| "_Tables".to_string());
            let q = match k % 3 {
                0 => Select::table("NoSuchTable"),
                1 => Select::table(t.as_str()).columns(&["NoSuchColumn"]),
                _ => Select::table(t.as_str()).with(Expr::col("NoSuchColumn").eq(Expr::integer(1))),
            };
            let r = run.pkg().select_rows(q).map(|rows| {
                let _ = rows.count();
            });
            Some((format!("select(unknown name, kind {})", k % 3), r))
        }
        Bad::StreamBadName(k, which) => {
            let longname = "x".repeat(63);
            let n: &str = ["", "\u{4840}T", "a/b", "a:b", "\u{3800}", longname.as_str(), "a\\b", "a!b"][(*k % 8) as usize];
            let r = match which % 3 {
                0 => run.pkg().write_stream(n).map(|_| ()),
                1 => run.pkg().read_stream(n).map(|_| ()),
                _ => run.pkg().remove_stream(n),
            };
            Some((format!("stream call {} with name {n:?}", which % 3), r))
        }
        Bad::StreamMissing(which) => {
            let r = match which % 2 {
                0 => run.pkg().read_stream("NoSuchStream").map(|mut s| {
                    let mut b = Vec::new();
                    let _ = s.read_to_end(&mut b);
                }),
                _ => run.pkg().remove_stream("NoSuchStream"),
            };
            Some((format!("stream call {} on a missing stream", which % 2), r))
        }
    }
}

fn pool_multiset(bytes: &[u8]) -> Result<Vec<(Vec<u8>, u16)>, String> {
    let d = fmt::decode(bytes)?;
    let mut v: Vec<(Vec<u8>, u16)> = d.pool.entries.iter().filter(|e| e.refcount > 0 || !e.bytes.is_empty()).map(|e| (e.bytes.clone(), e.refcount)).collect();
    v.sort();
    Ok(v)
}

fn reopen_snapshot(bytes: &[u8]) -> Result<Snapshot, String> {
    let mut pkg = Package::open(SharedBuf::new(bytes.to_vec())).map_err(|e| format!("does not open: {e}"))?;
    observe(&mut pkg)
}

pub fn check_case(case: &Case, st: &mut Stats) -> Check {
    let mut run = Run::create(P, case.ptype, &PROFILE)?;
    for op in &case.prefix {
        match run.apply(P, op) {
            Ok(_) => {}
            Err(f) if f.sig.contains("unexpected-error") || f.sig.contains("reopen-") => return Ok(()), // other properties' business
            Err(f) => return Err(f),
        }
    }
    if let Bad::UpdateKeyToEmpty(how) = &case.bad {
        // state needed by this call: a table whose key column holds the empty key
        let first = if how % 2 == 0 { Value::Str(String::new()) } else { Value::Null };
        let setup = (|| -> std::io::Result<()> {
            run.pkg().create_table("EmptyKey", vec![Column::build("k").primary_key().nullable().string(0), Column::build("v").nullable().string(0)])?;
            run.pkg().insert_rows(Insert::into("EmptyKey").row(vec![first, Value::from("first label")]).row(vec![Value::from("beta"), Value::from("second label")]))
        })();
        if setup.is_err() {
            st.class("not-applicable");
            return Ok(());
        }
        run.trace.push("create_table(EmptyKey); insert(EmptyKey, ['' | null, 'first label'], ['beta', 'second label'])".into());
    }
    if let Bad::InsertOverRowLimit(k) = &case.bad {
        if k % 8 != 0 {
            st.class("not-applicable");
            return Ok(());
        }
        let n = if (k / 16) % 2 == 0 { 65_535 } else { 65_536 };
        let setup = (|| -> std::io::Result<()> {
            run.pkg().create_table("Full", vec![Column::build("k").primary_key().int32(), Column::build("v").nullable().string(0)])?;
            let rows: Vec<Vec<Value>> = (0..n).map(|i| vec![Value::Int(i), if i % 1000 == 0 { Value::from(format!("row {i}")) } else { Value::Null }]).collect();
            run.pkg().insert_rows(Insert::into("Full").rows(rows))
        })();
        if setup.is_err() {
            st.class("not-applicable");
            return Ok(());
        }
        run.trace.push(format!("create_table(Full); insert(Full, {n} rows)"));
    }
    if let Bad::PoolFull(k) = &case.bad {
        if k % 16 != 0 {
            st.class("not-applicable");
            return Ok(());
        }
        // the session continues on a file whose pool is already full
        let variant = (k / 16) % 5;
        let bytes = crate::props::c20::file_with_pool(match variant {
            3 => 65_532,
            4 => 65_000,
            _ => 65_535,
        })?;
        run.buf = crate::media::SharedBuf::new(bytes);
        run.pkg = Some(Package::open(run.buf.clone()).map_err(|e| Fail::new(format!("{P} unexpected-error op=Open"), e.to_string()))?);
        if variant == 4 {
            // a row with one string that is referenced nowhere else and two
            // that other rows hold as well, then filler strings until exactly
            // one pool entry is free
            let setup = (|| -> std::io::Result<()> {
                run.pkg().create_table("U", vec![Column::build("k").primary_key().int16(), Column::build("a").string(0), Column::build("b").string(0), Column::build("c").string(0)])?;
                run.pkg().insert_rows(Insert::into("U").row(vec![Value::Int(1), Value::from("only-here-a"), Value::from("s000010"), Value::from("s000011")]))?;
                run.pkg().flush()
            })();
            let entries = fmt::decode(&run.buf.contents()).map(|d| d.pool.entries.len()).unwrap_or(usize::MAX);
            if setup.is_err() || entries >= 65_534 {
                st.class("not-applicable");
                return Ok(());
            }
            let filler = 65_535 - entries - 1;
            if run.pkg().insert_rows(Insert::into("S").rows((0..filler).map(|i| vec![Value::Str(format!("fill{i:06}"))]).collect())).is_err() {
                st.class("not-applicable");
                return Ok(());
            }
        }
        run.trace.push("(the package is replaced by a file whose string pool holds 65,535 entries, or 65,532 for the late-failing creation)".into());
    }
    if let Bad::CreateOverOrphan(k) = &case.bad {
        let q = match k % 3 {
            0 => Insert::into("_Tables").row(vec![Value::from("Ghost")]),
            1 => Insert::into("_Columns").row(vec![Value::from("Ghost"), Value::Int(1), Value::from("Id"), Value::Int(0x2502)]),
            _ => Insert::into("_Validation").row(vec![Value::from("Ghost"), Value::from("Id"), Value::from("N"), Value::Null, Value::Null, Value::Null, Value::Null, Value::from("Identifier"), Value::Null, Value::from("left over")]),
        };
        if run.pkg().insert_rows(q).is_err() {
            st.class("not-applicable");
            return Ok(());
        }
        run.trace.push(format!("insert({}, an orphan row about a table Ghost that does not exist)", ["_Tables", "_Columns", "_Validation"][(*k % 3) as usize]));
    }
    if let Bad::NoValidation(_, n) = &case.bad {
        let mut db = crate::props::c20::strings_db(3 + (*n % 3) as u32);
        db.with_validation = false;
        let bytes = crate::enc::encode_db(&db).map_err(|e| Fail::new(format!("{P} harness-encoder"), e))?;
        run.buf = crate::media::SharedBuf::new(bytes);
        run.pkg = Some(Package::open(run.buf.clone()).map_err(|e| Fail::new(format!("{P} unexpected-error op=Open"), e.to_string()))?);
        run.trace.push("(the package is replaced by a foreign file with one table and no _Validation table)".into());
    }
    if let Bad::DropGhost(k) = &case.bad {
        let row = |col: &str| -> Vec<Value> {
            vec![Value::from("Ghost"), Value::from(col), Value::from("N"), Value::Null, Value::Null, Value::Null, Value::Null, Value::from("Identifier"), Value::Null, Value::from("left over")]
        };
        let mut q = Insert::into("_Validation").row(row("Id"));
        if k % 2 == 1 {
            q = q.row(row("Name"));
        }
        if run.pkg().insert_rows(q).is_err() {
            st.class("not-applicable");
            return Ok(());
        }
        run.trace.push("insert(_Validation, rows describing columns of a table Ghost that does not exist)".into());
    }
    let trace = run.trace_text();
    run.pkg().flush().map_err(|e| Fail::new(format!("{P} unexpected-error op=Flush"), format!("{e}; history: {trace}")))?;
    let bytes0 = run.buf.contents();
    // one case in four has a summary edit pending (made after the save, not
    // yet written) when the invalid call arrives: the refusal must not make
    // the next save forget it
    let pending = case.prefix.len() % 4 == 1;
    if pending {
        run.pkg().summary_info_mut().set_comments("an edit that is pending when the invalid call arrives");
        run.pkg().summary_info_mut().set_word_count(77);
        st.class("summary-edit-pending");
    }
    let snap0 = run.snapshot(P)?;
    let file_ok_before = !pending && check_file(&bytes0, &snap0, true).is_ok();
    let (what, res) = match crate::engine::catch(|| perform(&mut run, &case.bad)) {
        Ok(Some(x)) => x,
        Ok(None) => {
            st.class("not-applicable");
            return Ok(());
        }
        Err((loc, msg)) => return Err(Fail::new(format!("{P} panic at={loc}"), format!("invalid call panicked: {msg}; call: {:?}; history: {trace}", case.bad))),
    };
    let kind = format!("{:?}", case.bad);
    let kind = kind.split('(').next().unwrap_or("").to_string();
    if res.is_ok() {
        st.class("unexpectedly-ok");
        st.class(&format!("ok:{kind}"));
        return Ok(());
    }
    st.class(&format!("err:{kind}"));
    st.nontrivial(&(crate::engine::hash_of(&run.model.expected().tables.keys().collect::<Vec<_>>()), &case.bad, case.prefix.len()));
    let detail = |what2: &str| format!("{what2} after the rejected call {what} (error: {}); history: {trace}", res.as_ref().err().map(|e| e.to_string()).unwrap_or_default());
    // 1. every observable, including the catalog tables
    let snap1 = run.snapshot(P)?;
    if let Some((part, d)) = snap0.diff(&snap1) {
        return Err(Fail::new(format!("{P} changed part={part} call={kind}"), detail(&format!("{part} changed: {d}"))));
    }
    // 2. what is read back after saving and reopening
    run.pkg().flush().map_err(|e| Fail::new(format!("{P} unexpected-error op=Flush"), format!("{e}; history: {trace}")))?;
    let bytes1 = run.buf.contents();
    // (with a pending edit, what reopens is the file saved before the edit
    // plus the edit itself)
    let expected_reopen = || {
        reopen_snapshot(&bytes0).map(|mut s| {
            if pending {
                s.summary.comments = Some("an edit that is pending when the invalid call arrives".to_string());
                s.summary.word_count = Some(77);
            }
            s
        })
    };
    let re0 = expected_reopen();
    let re1 = reopen_snapshot(&bytes1);
    match (re0, re1) {
        (Ok(a), Ok(b)) => {
            if let Some((part, d)) = a.diff(&b) {
                return Err(Fail::new(format!("{P} changed-after-reopen part={part} call={kind}"), detail(&format!("after saving and reopening, {part} differs: {d}"))));
            }
        }
        (Ok(_), Err(e)) => return Err(Fail::new(format!("{P} unreadable-after-rejected-call call={kind}"), detail(&format!("the saved file no longer opens ({e})")))),
        (Err(_), _) => {}
    }
    // 3. string-pool accounting seen by the independent decoder
    if file_ok_before {
        if let (Ok(p0), Ok(p1)) = (pool_multiset(&bytes0), pool_multiset(&bytes1)) {
            if p0 != p1 {
                let extra: Vec<String> = p1.iter().filter(|e| p0.binary_search(e).is_err()).take(3).map(|e| format!("({:?}, {})", String::from_utf8_lossy(&e.0[..e.0.len().min(20)]), e.1)).collect();
                return Err(Fail::new(format!("{P} pool-changed call={kind}"), detail(&format!("the string pool differs (entries now present: {extra:?})"))));
            }
        }
        if let Err((k, d)) = check_file(&bytes1, &snap1, true) {
            return Err(Fail::new(format!("{P} file-inconsistent kind={k} call={kind}"), detail(&d)));
        }
    }
    // 4. the same call once more: a refusal that leaves something behind
    // unobserved (a string parked in the pool, a half-registered name) shows
    // when the call is simply retried
    match crate::engine::catch(|| perform(&mut run, &case.bad)) {
        Err((loc, msg)) => return Err(Fail::new(format!("{P} panic at={loc}"), format!("the invalid call panicked when it was repeated: {msg}; call: {:?}; history: {trace}", case.bad))),
        Ok(Some((_, Err(_)))) => {
            let snap2 = run.snapshot(P)?;
            if let Some((part, d)) = snap0.diff(&snap2) {
                return Err(Fail::new(format!("{P} changed-by-retry part={part} call={kind}"), detail(&format!("after the same call was rejected a second time, {part} changed: {d}"))));
            }
            run.pkg().flush().map_err(|e| Fail::new(format!("{P} unexpected-error op=Flush"), format!("{e}; history: {trace}")))?;
            let bytes2 = run.buf.contents();
            if let (Ok(a), Ok(b)) = (expected_reopen(), reopen_snapshot(&bytes2)) {
                if let Some((part, d)) = a.diff(&b) {
                    return Err(Fail::new(format!("{P} changed-after-reopen-by-retry part={part} call={kind}"), detail(&format!("after a second rejection, saving and reopening, {part} differs: {d}"))));
                }
            }
        }
        _ => {}
    }
    Ok(())
}

fn bad_strategy() -> impl Strategy<Value = Bad> {
    prop_oneof![
        2 => any::<u8>().prop_map(Bad::CreateBadName),
        1 => any::<u16>().prop_map(Bad::CreateExisting),
        1 => Just(Bad::CreateNoColumns),
        1 => any::<u8>().prop_map(Bad::CreateTooManyColumns),
        1 => Just(Bad::CreateNoKey),
        1 => Just(Bad::CreateDuplicateColumn),
        1 => any::<u8>().prop_map(Bad::CreateBadColumnName),
        8 => (any::<u8>(), any::<u8>()).prop_map(|(a, b)| Bad::CreateLate(a, b)),
        2 => any::<u8>().prop_map(Bad::DropBad),
        1 => Just(Bad::InsertUnknownTable),
        3 => (any::<u16>(), any::<u8>()).prop_map(|(a, b)| Bad::InsertArity(a, b)),
        8 => (any::<u16>(), any::<u16>(), any::<u8>(), any::<u8>()).prop_map(|(a, b, c, d)| Bad::InsertInvalidValue(a, b, c, d)),
        5 => (any::<u16>(), any::<u16>(), any::<u8>()).prop_map(|(a, b, c)| Bad::InsertDuplicateExisting(a, b, c)),
        4 => (any::<u16>(), any::<u8>()).prop_map(|(a, b)| Bad::InsertDuplicateInBatch(a, b)),
        1 => Just(Bad::UpdateUnknownTable),
        2 => any::<u16>().prop_map(Bad::UpdateUnknownSetColumn),
        2 => any::<u16>().prop_map(Bad::UpdateUnknownWhereColumn),
        5 => (any::<u16>(), any::<u16>(), any::<u8>()).prop_map(|(a, b, c)| Bad::UpdateInvalidValue(a, b, c)),
        4 => any::<u16>().prop_map(Bad::UpdateKeyCollision),
        3 => any::<u8>().prop_map(Bad::UpdateKeyToEmpty),
        1 => Just(Bad::DeleteUnknownTable),
        2 => any::<u16>().prop_map(Bad::DeleteUnknownWhereColumn),
        2 => (any::<u16>(), any::<u8>()).prop_map(|(a, b)| Bad::SelectUnknown(a, b)),
        3 => (any::<u8>(), any::<u8>()).prop_map(|(a, b)| Bad::StreamBadName(a, b)),
        1 => any::<u8>().prop_map(Bad::StreamMissing),
        2 => any::<u8>().prop_map(Bad::DropGhost),
        1 => any::<u8>().prop_map(Bad::InsertOverRowLimit),
        2 => any::<u8>().prop_map(Bad::PoolFull),
        3 => (any::<u8>(), any::<u8>()).prop_map(|(a, b)| Bad::NoValidation(a, b)),
        2 => any::<u8>().prop_map(Bad::CreateOverOrphan),
    ]
}

pub fn run(ctx: &Ctx) -> Report {
    let mut rep = Report::new(
        "exploration",
        "a generated valid prefix (tables, rows, streams, summary, code page, reopen) to reach a state, then one invalid call from a catalogue of 26 kinds: unknown / invalid / reserved names, arity 0..33, one invalid value (each way of being invalid) at the first, middle or last row of a batch, duplicate key against the table and inside the batch, unknown column in SET or WHERE, key-colliding update, stream calls with refused names or on missing streams, and late failures (column names of 33..64 characters, table names of 33..60, widths above 255, enumerations beyond 255 characters or with ';', ranges including i32::MIN, malformed foreign keys; the same late-failing creations on a foreign database that has no _Validation table; creation, with a storable and with six late-failing definitions, under a name about which a catalog table holds an orphan row). Oracle when the call returns Err: full API snapshot (including the three catalog tables) before == after; snapshot after flush + reopen before == after; string-pool entries seen by the independent decoder before == after and the saved file still passes the C08 file checks. Non-trivial = the call returned Err; distinct by (state, call).",
    );
    rep.assumptions.push("a call that unexpectedly returns Ok is not judged here (it belongs to C06 / C07 / C20)".into());
    let mut st = Stats::new();
    let max_ops = ctx.tier.pick(8, 20);
    let v = search(
        ctx,
        "reject",
        ctx.tier.pick(60_000, 600_000),
        || (seq::seq_case(W_PREFIX, max_ops), bad_strategy()).prop_map(|(s, bad)| Case { ptype: s.ptype, prefix: s.ops, bad }),
        |c: &Case, st| {
            st.eval();
            if st.wants_sample() && st.evaluations % 47 == 2 {
                st.sample(json!({"prefix": c.prefix.iter().map(|o| o.kind()).collect::<Vec<_>>(), "invalid_call": format!("{:?}", c.bad)}));
            }
            check_case(c, st)
        },
        &mut st,
    );
    rep.push(v);
    rep.stats = st;
    rep
}

pub fn replay(_ctx: &Ctx, doc: &J) -> Check {
    let mut st = Stats::new();
    match doc["kind"].as_str().unwrap_or("") {
        "reject" => check_case(&serde_json::from_value::<Case>(doc["case"].clone()).map_err(|e| Fail::new(format!("{P} bad-replay"), e.to_string()))?, &mut st),
        k => Err(Fail::new(format!("{P} bad-replay"), format!("unknown case kind {k:?}"))),
    }
}
