//! C02 — independently encoded MSI databases are read exactly.

use crate::cpref::{self, PAGES};
use crate::enc::{self, AbsCol, AbsDb, AbsTable, PoolOpts, SummarySpec};
use crate::engine::{search, Check, Ctx, Fail, Report, Stats};
use crate::media::SharedBuf;
use crate::model::{key_of, Cat, ColDef, MSummary, Ty};
use crate::observe::{observe, Snapshot};
use crate::props::c08::check_file_opts;
use crate::refeval::V;
use msi::{Column, Delete, Expr, Insert, Package, Update, Value};
use proptest::prelude::*;
use serde_json::{json, Value as J};
use std::io::Write;

const P: &str = "C02";

fn without_catalog(s: &Snapshot) -> Snapshot {
    let mut s = s.clone();
    s.tables.remove("_Tables");
    s.tables.remove("_Columns");
    s
}

/// A fresh, valid row for the table (new key), if one can be made.
fn fresh_row(cols: &[ColDef], rows: &[Vec<V>], salt: i32) -> Option<Vec<V>> {
    let mut row: Vec<V> = Vec::new();
    for (i, c) in cols.iter().enumerate() {
        let v = match c.ty {
            Ty::I16 => V::Int(20000 + salt % 1000 + i as i32),
            Ty::I32 => V::Int(1_000_000 + salt + i as i32),
            Ty::Str(w) => {
                let s = format!("n{}{}", salt % 97, i);
                V::Str(if w > 0 { s.chars().take(w).collect() } else { s })
            }
        };
        if c.valid_ref(&v) != Some(true) {
            if c.nullable && !c.key {
                row.push(V::Null);
                continue;
            }
            return None;
        }
        row.push(v);
    }
    let k = key_of(cols, &row);
    if rows.iter().any(|r| key_of(cols, r) == k) {
        return None;
    }
    Some(row)
}

pub fn check_db(db: &AbsDb, st: &mut Stats) -> Check {
    let bytes = enc::encode_db(db).map_err(|e| Fail::new(format!("{P} harness-encoder"), e))?;
    let want = enc::expected_snapshot(db);
    // ---- phase 1: open and compare ------------------------------------
    let buf = SharedBuf::new(bytes);
    let mut pkg = Package::open(buf.clone()).map_err(|e| Fail::new(format!("{P} open-failed"), format!("a well-formed database was refused: {e}; {}", describe(db))))?;
    let got = observe(&mut pkg).map_err(|e| Fail::new(format!("{P} unreadable"), format!("{e}; {}", describe(db))))?;
    if let Some((part, d)) = want.diff(&without_catalog(&got)) {
        return Err(Fail::new(format!("{P} read-differs part={part}"), format!("encoded vs reported: {}; {}", crate::engine::clip(&d, 500), describe(db))));
    }
    // the catalog as the API shows it: _Tables lists the tables in file order
    if let Some((_, rows)) = got.tables.get("_Tables") {
        let listed: Vec<String> = rows.iter().filter_map(|r| if let V::Str(s) = &r[0] { Some(s.clone()) } else { None }).collect();
        let mut expect: Vec<String> = db.tables.iter().map(|t| t.name.clone()).collect();
        if db.with_validation {
            expect.push("_Validation".into());
        }
        if listed != expect {
            return Err(Fail::new(format!("{P} read-differs part=catalog"), format!("_Tables reads {listed:?}, encoded {expect:?}")));
        }
    }
    // ---- phase 2: change some things through the API, save, decode -----
    let mut expected = want.clone();
    let mut touched: Vec<String> = Vec::new();
    let names: Vec<String> = db.tables.iter().map(|t| t.name.clone()).collect();
    let io = |what: &str, e: std::io::Error| Fail::new(format!("{P} api-call-failed call={what}"), format!("{what} on an opened foreign database failed: {e}; {}", describe(db)));
    if let Some(t) = names.first() {
        let (cols, rows) = expected.tables.get(t).cloned().unwrap();
        if let Some(row) = fresh_row(&cols, &rows, 7) {
            let unique = {
                let mut ks: Vec<Vec<V>> = rows.iter().map(|r| key_of(&cols, r)).collect();
                ks.sort();
                ks.windows(2).all(|w| w[0] != w[1])
            };
            if unique {
                pkg.insert_rows(Insert::into(t.as_str()).row(row.iter().map(|v| v.to_msi()).collect())).map_err(|e| io("insert", e))?;
                let e = expected.tables.get_mut(t).unwrap();
                e.1.push(row);
                // insert rewrites the table in primary-key order
                let c2 = cols.clone();
                e.1.sort_by(|a, b| key_of(&c2, a).cmp(&key_of(&c2, b)));
                touched.push(t.clone());
                st.class("phase2:insert");
            }
        }
    }
    if let Some(t) = names.get(1) {
        let (cols, rows) = expected.tables.get(t).cloned().unwrap();
        if let Some((ci, c)) = cols.iter().enumerate().find(|(_, c)| !c.key && c.nullable) {
            pkg.update_rows(Update::table(t.as_str()).set(c.name.as_str(), Value::Null)).map_err(|e| io("update", e))?;
            let e = expected.tables.get_mut(t).unwrap();
            for r in e.1.iter_mut() {
                r[ci] = V::Null;
            }
            let _ = rows;
            touched.push(t.clone());
            st.class("phase2:update");
        }
    }
    if let Some(t) = names.get(2) {
        let (cols, rows) = expected.tables.get(t).cloned().unwrap();
        if let (Some(first), Some((ki, kc))) = (rows.first(), cols.iter().enumerate().find(|(_, c)| c.key)) {
            let lit = match &first[ki] {
                V::Int(i) => Some(Expr::integer(*i)),
                V::Str(s) => Some(Expr::string(s.as_str())),
                V::Null => None,
            };
            if let Some(lit) = lit {
                pkg.delete_rows(Delete::from(t.as_str()).with(Expr::col(kc.name.as_str()).eq(lit))).map_err(|e| io("delete", e))?;
                let keyv = first[ki].clone();
                expected.tables.get_mut(t).unwrap().1.retain(|r| r[ki] != keyv);
                touched.push(t.clone());
                st.class("phase2:delete");
            }
        }
    }
    {
        let mut w = pkg.write_stream("Added.bin").map_err(|e| io("write_stream", e))?;
        w.write_all(b"added through the API").map_err(|e| io("write_stream", e))?;
        w.flush().map_err(|e| io("write_stream", e))?;
        expected.streams.insert("Added.bin".into(), b"added through the API".to_vec());
    }
    pkg.summary_info_mut().set_word_count(4242);
    expected.summary.word_count = Some(4242);
    // a new table: Ok and correct, or Err and nothing changed
    let before_create = observe(&mut pkg).map_err(|e| Fail::new(format!("{P} unreadable"), e))?;
    match pkg.create_table("AddedTable", vec![Column::build("k").primary_key().int16(), Column::build("v").nullable().string(8)]) {
        Ok(()) => {
            // rows with string cells: the new table's stream is written with
            // the reference width of the database it was added to
            let new_rows = vec![vec![V::Int(1), V::Str("one".into())], vec![V::Int(2), V::Str("two".into())], vec![V::Int(3), V::Null], vec![V::Int(4), V::Str("one".into())]];
            pkg.insert_rows(Insert::into("AddedTable").rows(new_rows.iter().map(|r| r.iter().map(|v| v.to_msi()).collect()).collect())).map_err(|e| io("insert into the added table", e))?;
            expected.tables.insert("AddedTable".into(), (vec![ColDef::new("k", Ty::I16).key(), ColDef::new("v", Ty::Str(8)).nullable()], new_rows));
            if db.with_validation && db.stale_validation {
                // accepting is fine as long as the result is consistent: one
                // validation row per column of the new table
                let e = expected.tables.get_mut("_Validation").unwrap();
                e.1.sort();
                touched.push("_Validation".into());
            } else if db.with_validation {
                let e = expected.tables.get_mut("_Validation").unwrap();
                e.1.push(vec![V::Str("AddedTable".into()), V::Str("k".into()), V::Str("N".into()), V::Null, V::Null, V::Null, V::Null, V::Null, V::Null, V::Null]);
                e.1.push(vec![V::Str("AddedTable".into()), V::Str("v".into()), V::Str("Y".into()), V::Null, V::Null, V::Null, V::Null, V::Null, V::Null, V::Null]);
                // rewritten in key order by the insert
                e.1.sort();
                touched.push("_Validation".into());
            }
            st.class("phase2:create-table-ok");
        }
        Err(_) => {
            let after = observe(&mut pkg).map_err(|e| Fail::new(format!("{P} unreadable"), e))?;
            if let Some((part, d)) = before_create.diff(&after) {
                return Err(Fail::new(format!("{P} refused-create-changed part={part}"), format!("create_table returned Err but {part} changed: {}; {}", crate::engine::clip(&d, 300), describe(db))));
            }
            st.class("phase2:create-table-refused");
        }
    }
    let api_now = observe(&mut pkg).map_err(|e| Fail::new(format!("{P} unreadable"), e))?;
    if let Some((part, d)) = expected.canon().diff(&without_catalog(&api_now).canon()) {
        return Err(Fail::new(format!("{P} changes-not-reflected part={part}"), format!("after API changes: expected vs reported: {}; {}", crate::engine::clip(&d, 500), describe(db))));
    }
    pkg.flush().map_err(|e| io("flush", e))?;
    let saved = buf.bytes();
    let overcounted = db.pool.overcount_every > 0 && db.pool.overcount_by > 0;
    let d = check_file_opts(&saved, &api_now, !overcounted, false).map_err(|(k, dd)| Fail::new(format!("{P} saved-file kind={k}"), format!("{dd}; {}", describe(db))))?;
    // untouched tables keep their file order byte for byte (rows compared in order)
    for t in &db.tables {
        if touched.contains(&t.name) {
            continue;
        }
        let dt = &d.tables[&t.name];
        if dt.rows.len() != t.rows.len() {
            return Err(Fail::new(format!("{P} untouched-table-changed"), format!("table {:?} was not touched but now has {} rows instead of {}", t.name, dt.rows.len(), t.rows.len())));
        }
    }
    // and the library reads its own save back to the same state
    let mut again = Package::open(SharedBuf::new(saved)).map_err(|e| Fail::new(format!("{P} saved-file kind=reopen"), format!("{e}; {}", describe(db))))?;
    let re = observe(&mut again).map_err(|e| Fail::new(format!("{P} unreadable"), e))?;
    if let Some((part, dd)) = api_now.canon().diff(&re.canon()) {
        return Err(Fail::new(format!("{P} saved-file kind=round-trip part={part}"), format!("{}; {}", crate::engine::clip(&dd, 400), describe(db))));
    }
    Ok(())
}

fn describe(db: &AbsDb) -> String {
    format!(
        "database: cp={} long_refs={} holes/{} dups/{} overcount/{}+{} leading_holes={} validation={} tables={:?} summary-layout(v{} gap{} rev{} rot{})",
        db.codepage_id,
        db.pool.long_refs,
        db.pool.hole_every,
        db.pool.dup_every,
        db.pool.overcount_every,
        db.pool.overcount_by,
        db.pool.leading_holes,
        db.with_validation,
        db.tables.iter().map(|t| format!("{}[{}x{}]", t.name, t.cols.len(), t.rows.len())).collect::<Vec<_>>(),
        db.summary.version,
        db.summary.header_gap,
        db.summary.reverse_values,
        db.summary.rotate
    )
}

pub fn features(db: &AbsDb) -> Vec<&'static str> {
    let mut f = Vec::new();
    if db.pool.long_refs {
        f.push("3-byte-refs");
    }
    if db.pool.hole_every > 0 || db.pool.leading_holes > 0 {
        f.push("pool-holes");
    }
    if db.pool.dup_every > 0 {
        f.push("pool-duplicates");
    }
    if db.pool.overcount_every > 0 && db.pool.overcount_by > 0 {
        f.push("pool-overcount");
    }
    if db.pool.leading_holes > 65535 {
        f.push("refs-above-65535");
    }
    if db.tables.iter().any(|t| t.rows.iter().flatten().any(|v| matches!(v, V::Str(s) if s.len() > 65535))) {
        f.push("long-string");
    }
    if db.tables.iter().any(|t| t.cols.iter().any(|c| c.width1)) {
        f.push("width-1-integer");
    }
    if !db.with_validation {
        f.push("no-validation-table");
    }
    if db.stale_validation {
        f.push("stale-validation-rows");
    }
    if db.codepage_id == 0 {
        f.push("codepage-0");
    }
    if db.summary.header_gap > 0 || db.summary.reverse_values || db.summary.rotate > 0 || db.summary.version > 0 || db.summary.gaps.iter().any(|g| g % 4 != 0) {
        f.push("propset-layout");
    }
    f
}

// ------------------------------------------------------------------------- //
// Generator.

fn page_string(page_id: i32) -> BoxedStrategy<String> {
    let page = cpref::page_by_id(page_id).unwrap();
    let rep: Vec<char> = cpref::repertoire(page).into_iter().filter(|c| *c != '\u{feff}' && !c.is_control()).collect();
    let mut boms = cpref::bom_lookalikes(page);
    if boms.is_empty() {
        boms.push("a".to_string());
    }
    prop_oneof![
        // strings whose encoded form starts like a byte-order mark
        1 => (prop::sample::select(boms), prop::sample::select(vec!["", "a", "AB"])).prop_map(|(b, t)| format!("{b}{t}")),
        3 => prop::sample::select(vec!["a", "b", "Name", "x y", "Value", "k", "T", "A", "0"]).prop_map(|s| s.to_string()),
        2 => prop::collection::vec(prop::sample::select(rep.clone()), 1..5).prop_map(|v| v.into_iter().collect::<String>()),
        // 1025..3000 characters: the encoded form crosses the block sizes
        // readers work in, with multi-byte characters on the boundaries
        1 => (prop::collection::vec(prop::sample::select(rep), 1..4), 1025usize..3000).prop_map(|(v, target)| {
            let pattern: String = v.into_iter().collect();
            let per = pattern.chars().count();
            let mut s = String::new();
            let mut n = 0;
            while n < target {
                s.push_str(&pattern);
                n += per;
            }
            s
        }),
    ]
    .boxed()
}

fn col_strategy() -> impl Strategy<Value = AbsCol> {
    let ty = prop_oneof![2 => Just(Ty::I16), 2 => Just(Ty::I32), 4 => prop::sample::select(vec![0usize, 1, 4, 32, 72, 255]).prop_map(Ty::Str)];
    (ty, any::<bool>(), any::<bool>(), any::<bool>(), prop::bool::weighted(0.15), prop::bool::weighted(0.25), prop::bool::weighted(0.8),
     prop_oneof![4 => Just(None), 1 => Just(Some((-100, 100))), 1 => Just(Some((0, 32767)))],
     prop_oneof![3 => Just(None), 2 => (0u8..26).prop_map(|i| Some(Cat(i)))],
     prop_oneof![5 => Just(vec![]), 1 => Just(vec!["Y".to_string(), "N".to_string()])],
     prop_oneof![6 => Just(None), 1 => Just(Some(("Other".to_string(), 1)))])
        .prop_map(|(ty, nb, nv, localizable, key, width1, validated, range, category, enums, fk)| {
            let mut def = ColDef::new("", ty);
            def.localizable = localizable;
            def.key = key;
            def.range = range;
            def.category = category;
            def.enums = enums;
            def.fk = fk;
            AbsCol { def, width1: width1 && ty == Ty::I16, nullable_in_bits: nb, nullable_in_validation: nv, validated }
        })
}

fn table_strategy(idx: usize, page_id: i32, long: bool, beyond_32: bool) -> impl Strategy<Value = AbsTable> {
    // (`beyond_32`: C09 only; a catalog may describe more columns than the
    // library's own create_table allows)
    let ncols = if beyond_32 {
        prop_oneof![8 => 1usize..6, 1 => 6usize..20, 1 => Just(32usize), 1 => 33usize..41].boxed()
    } else {
        prop_oneof![8 => 1usize..6, 1 => 6usize..20, 1 => Just(32usize)].boxed()
    };
    (ncols, any::<u16>())
        .prop_flat_map(move |(n, keypos)| {
            (prop::collection::vec(col_strategy(), n), Just(keypos), prop::collection::vec(prop::collection::vec((any::<u8>(), any::<i32>(), page_string(page_id)), n), 0..7), any::<prop::sample::Index>())
        })
        .prop_map(move |(mut cols, keypos, rowseeds, longpos)| {
            let n = cols.len();
            for (i, c) in cols.iter_mut().enumerate() {
                c.def.name = ["k", "a", "b", "Name", "K", "c.d", "_e", "A"].get(i).map(|s| s.to_string()).unwrap_or_else(|| format!("col{i}"));
            }
            // at least one key, anywhere in the column order
            let kp = crate::seq::pick(keypos, n);
            cols[kp].def.key = true;
            let mut rows: Vec<Vec<V>> = Vec::new();
            for rs in rowseeds {
                let row: Vec<V> = cols
                    .iter()
                    .zip(rs.into_iter())
                    .map(|(c, (class, int, s))| {
                        let nullable = c.nullable_in_bits || c.nullable_in_validation;
                        if nullable && !c.def.key && class % 4 == 0 {
                            return V::Null;
                        }
                        match c.def.ty {
                            Ty::I16 => V::Int(((int % 32767) + if class % 8 == 1 { 0 } else { 1 }).clamp(-32767, 32767)),
                            Ty::I32 => V::Int(if int == i32::MIN { 1 } else { int }),
                            Ty::Str(_) => {
                                if s.is_empty() {
                                    V::Str("e".into())
                                } else {
                                    V::Str(s)
                                }
                            }
                        }
                    })
                    .collect();
                let k = key_of(&cols.iter().map(|c| c.def.clone()).collect::<Vec<_>>(), &row);
                let defs: Vec<ColDef> = cols.iter().map(|c| c.def.clone()).collect();
                if rows.iter().any(|r| key_of(&defs, r) == k) {
                    continue;
                }
                rows.push(row);
            }
            // one table in 24 is tall: 1,100..3,100 rows, so that its stream
            // spans several of the container's 8 KiB buffers (copies of the
            // first row under fresh keys)
            if !rows.is_empty() && longpos.index(24) == 7 {
                let defs: Vec<ColDef> = cols.iter().map(|c| c.def.clone()).collect();
                let kc = defs.iter().position(|c| c.key).unwrap_or(0);
                let mut seen: std::collections::HashSet<Vec<V>> = rows.iter().map(|r| key_of(&defs, r)).collect();
                let target = 1_100 + longpos.index(2_000);
                let template = rows[0].clone();
                let mut i = 0i32;
                while rows.len() < target && i < 40_000 {
                    i += 1;
                    let mut r = template.clone();
                    r[kc] = match defs[kc].ty {
                        Ty::I16 => V::Int(i % 32_767 - 16_000),
                        Ty::I32 => V::Int(i * 3 + 70_000),
                        Ty::Str(_) => V::Str(format!("t{i}")),
                    };
                    if seen.insert(key_of(&defs, &r)) {
                        rows.push(r);
                    }
                }
            }
            if long && !rows.is_empty() {
                // one cell beyond 64 KiB
                if let Some(ci) = cols.iter().position(|c| matches!(c.def.ty, Ty::Str(_)) && !c.def.key) {
                    let ri = longpos.index(rows.len());
                    let len = [65_534usize, 65_535, 65_536, 70_000][longpos.index(4)];
                    rows[ri][ci] = V::Str("L".repeat(len));
                }
            }
            AbsTable { name: ["Alpha", "Beta.t", "_gamma", "D4"][idx % 4].to_string(), cols, rows }
        })
}

fn summary_strategy() -> impl Strategy<Value = SummarySpec> {
    (0usize..PAGES.len(), any::<u8>()).prop_flat_map(|(pi, which)| {
        let id = PAGES[pi].id;
        let s = || prop::option::weighted(0.6, page_string(id));
        let strings = (s(), s(), s(), s(), s());
        let scalars = (any::<u64>(), prop::option::weighted(0.5, any::<i32>()), prop::option::weighted(0.5, any::<u64>()));
        let layout = (0u16..2, 0u8..4, prop::collection::vec(any::<u8>(), 0..8), any::<bool>(), 0u8..4, any::<u8>());
        (Just(id), Just(which), strings, scalars, layout)
    })
    .prop_map(|(id, which, (title, subject, author, comments, app), (uu, wc, ctime), (version, header_gap, gaps, reverse_values, trailing, rotate))| {
        let values = MSummary {
            codepage: id,
            title,
            subject,
            author,
            comments,
            app,
            uuid: if which % 2 == 0 { Some(uuid::Uuid::from_u64_pair(uu, !uu).hyphenated().to_string()) } else { None },
            word_count: wc,
            ctime_ticks: ctime,
            arch: match which % 3 {
                0 => Some("x64".to_string()),
                1 => Some("Intel".to_string()),
                _ => None,
            },
            langs: if which % 5 < 2 { vec![1033] } else if which % 5 == 2 { vec![1033, 1036, 0] } else { vec![] },
        };
        SummarySpec { values, version, header_gap, gaps, reverse_values, trailing, rotate }
    })
}

/// Names of extra streams: mostly packable identifiers; some carry the
/// U+0005 prefix of the property-set streams without being one of the four
/// reserved names (other producers store e.g. their own property sets that
/// way), some hold characters outside the packing alphabet.
fn stream_name() -> impl Strategy<Value = String> {
    prop_oneof![
        6 => "[a-zA-Z0-9._]{1,10}".prop_map(|s| s),
        1 => "[a-zA-Z0-9._]{1,10}".prop_map(|s| format!("\u{5}{s}")),
        1 => "[a-zA-Z0-9._]{0,4}".prop_map(|s| format!("{s} -{s}é")),
        // numerals and letters outside ASCII (stored as they are, never packed)
        1 => ("[a-zA-Z0-9._]{0,4}", prop::sample::select(vec!['²', '½', '٣', '５', 'Ａ', 'ａ', 'Ⅷ', '０'])).prop_map(|(s, c)| format!("{s}{c}{s}")),
    ]
}

pub fn db_strategy() -> impl Strategy<Value = AbsDb> {
    db_strategy_with(0.06, false)
}

/// `long_weight`: probability that the first table is a long one (tens of
/// thousands of rows).  The libFuzzer target passes 0: a long table consumes
/// more generator bytes than a fuzzer input plus its fixed tail provides.
pub fn db_strategy_with(long_weight: f64, beyond_32: bool) -> impl Strategy<Value = AbsDb> {
    let pool = (any::<bool>(), prop_oneof![3 => Just(0u8), 1 => Just(3), 1 => Just(5)], prop_oneof![3 => Just(0u8), 1 => Just(2), 1 => Just(4)], prop_oneof![3 => Just(0u8), 1 => Just(3)], 1u8..3, prop_oneof![48 => Just(0u32), 1 => Just(65_600u32)])
        .prop_map(|(long_refs, hole_every, dup_every, overcount_every, overcount_by, leading_holes)| PoolOpts { long_refs: long_refs || leading_holes > 0, hole_every, dup_every, overcount_every, overcount_by, leading_holes });
    (0usize..PAGES.len() + 1, 1usize..5, prop::bool::weighted(long_weight), pool, prop::bool::weighted(0.8), summary_strategy(), 0u8..3, prop::collection::vec((stream_name(), prop::collection::vec(any::<u8>(), 0..40)), 0..3))
        .prop_flat_map(move |(pi, ntables, long, pool, with_validation, summary, ptype, streams)| {
            let id = if pi == PAGES.len() { 0 } else { PAGES[pi].id };
            let page_id = if id == 0 { 65001 } else { id };
            let tables: Vec<BoxedStrategy<AbsTable>> = (0..ntables).map(|i| table_strategy(i, page_id, long && i == 0, beyond_32).boxed()).collect();
            (Just(id), tables, Just(pool), Just(with_validation), Just(summary), Just(ptype), Just(streams))
        })
        .prop_map(|(codepage_id, tables, pool, with_validation, summary, ptype, streams)| {
            let mut names = std::collections::BTreeSet::new();
            let streams: Vec<(String, Vec<u8>)> = streams.into_iter().filter(|(n, _)| names.insert(n.to_uppercase()) && n != "Added.bin").collect();
            let stale_validation = with_validation && streams.len() % 3 == 1;
            AbsDb { ptype, codepage_id, pool, tables, with_validation, summary, streams, stale_validation }
        })
}

pub fn run(ctx: &Ctx) -> Report {
    let mut rep = Report::new(
        "exploration",
        "abstract databases written by the independent encoder: string pool in 2- or 3-byte mode with unused entries, duplicate texts, over-counted references, strings beyond 64 KiB and (1 case in ~50) references above 65,535; every supported code-page id including 0; 1..4 tables of up to 32 columns in any type mix and column order (key anywhere), integer columns declared with width 1, unsorted rows with unique keys; _Validation with rows for all, some or no columns, or absent; property sets with any property order, section offset, gaps, padding and format version; extra streams; each of the three CLSIDs. Phase 1: Package::open succeeds and the API snapshot equals the abstract database. Phase 2: insert / update / delete / stream / summary / create_table through the API, then the saved file is decoded independently (C08 file checks, reference counts >= for over-counted inputs), untouched tables keep their rows, and the library reads its own save back to the same state. Non-trivial = the file uses at least one of: 3-byte refs, hole, duplicate, over-count, long string, width-1 integer, absent _Validation, code page 0, non-default property-set layout; distinct by the abstract database.",
    );
    rep.assumptions.push("only well-formed inputs: required streams present, references in range, complete column numbering, known value types, NUL-terminated LPSTR, no under-counted references (those are C09's domain)".into());
    let mut st = Stats::new();
    let v = search(ctx, "db", ctx.tier.pick(20_000, 200_000), db_strategy, |db: &AbsDb, st| {
        st.eval();
        let f = features(db);
        if !f.is_empty() {
            st.nontrivial(db);
        }
        for x in &f {
            st.class(x);
        }
        if st.wants_sample() && st.evaluations % 19 == 2 {
            st.sample(json!({"database": describe(db), "features": f}));
        }
        check_db(db, st)
    }, &mut st);
    rep.push(v);
    rep.stats = st;
    rep
}

pub fn replay(_ctx: &Ctx, doc: &J) -> Check {
    let mut st = Stats::new();
    match doc["kind"].as_str().unwrap_or("") {
        "db" => check_db(&serde_json::from_value::<AbsDb>(doc["case"].clone()).map_err(|e| Fail::new(format!("{P} bad-replay"), e.to_string()))?, &mut st),
        k => Err(Fail::new(format!("{P} bad-replay"), format!("unknown case kind {k:?}"))),
    }
}
