//! C16 — opening and reading a package never modifies it.

use crate::enc::{self, AbsDb};
use crate::engine::{search, Check, Ctx, Fail, Report, Stats};
use crate::fmt;
use crate::media::{Instrumented, SharedBuf};
use crate::props::c01::W_PERSIST;
use crate::props::c02::db_strategy;
use crate::seq::{self, pick, Run, SeqCase, PLAIN};
use msi::{Expr, Package, Select, Value};
use proptest::prelude::*;
use serde::{Deserialize, Serialize};
use serde_json::{json, Value as J};
use std::io::{Read, Write};

const P: &str = "C16";

#[derive(Clone, Debug, Serialize, Deserialize, Hash, PartialEq, Eq)]
pub enum ReadOp {
    ListTables,
    Describe(u16),
    SelectAll(u16),
    SelectWhere(u16, u16, i32),
    SelectColumns(u16, u16),
    Join(u16, u16, bool),
    Summary,
    ListStreams,
    ReadStream(u16),
    HasStream(u8),
    HasSignature,
    FailingSelect(u8),
    FailingStream(u8),
}

#[derive(Clone, Debug, Serialize, Deserialize, Hash, PartialEq, Eq)]
pub enum Source {
    Library(SeqCase),
    Foreign(Box<AbsDb>),
}

#[derive(Clone, Debug, Serialize, Deserialize, Hash, PartialEq, Eq)]
pub struct Case {
    pub source: Source,
    pub signed: bool,
    pub reads: Vec<ReadOp>,
    pub close: u8,
}

fn make_bytes(case: &Case) -> Result<Option<Vec<u8>>, Fail> {
    let bytes = match &case.source {
        Source::Library(sc) => {
            let mut run = Run::create(P, sc.ptype, &PLAIN)?;
            for op in &sc.ops {
                if run.apply(P, op).is_err() {
                    return Ok(None); // not this property's business
                }
            }
            match run.reopen(P, seq::close_mode(sc.final_close)) {
                Ok((_, _, b)) => b,
                Err(_) => return Ok(None),
            }
        }
        Source::Foreign(db) => enc::encode_db(db).map_err(|e| Fail::new(format!("{P} harness-encoder"), e))?,
    };
    if !case.signed {
        return Ok(Some(bytes));
    }
    let mut comp = cfb::CompoundFile::open(std::io::Cursor::new(bytes)).map_err(|e| Fail::new(format!("{P} harness-sign"), e.to_string()))?;
    for name in [fmt::SIGNATURE_STREAM, fmt::SIGNATURE_EX_STREAM] {
        let mut w = comp.create_stream(format!("/{name}")).map_err(|e| Fail::new(format!("{P} harness-sign"), e.to_string()))?;
        w.write_all(b"signature").and_then(|_| w.flush()).map_err(|e| Fail::new(format!("{P} harness-sign"), e.to_string()))?;
    }
    comp.flush().map_err(|e| Fail::new(format!("{P} harness-sign"), e.to_string()))?;
    Ok(Some(comp.into_inner().into_inner()))
}

pub fn check_case(case: &Case, st: &mut Stats) -> Check {
    let Some(bytes) = make_bytes(case)? else {
        st.class("source-not-usable");
        return Ok(());
    };
    let shared = SharedBuf::new(bytes.clone());
    let medium = Instrumented::new(shared.clone());
    let flush_failures = medium.flush_failures.clone();
    let counts = medium.counts.clone();
    let mut pkg = match Package::open(medium) {
        Ok(p) => p,
        Err(_) => {
            st.class("source-not-openable");
            return Ok(());
        }
    };
    let tables: Vec<String> = pkg.tables().map(|t| t.name().to_string()).collect();
    let streams: Vec<String> = pkg.streams().collect();
    let mut trace: Vec<String> = Vec::new();
    for op in &case.reads {
        let tname = |sel: u16| tables[pick(sel, tables.len())].clone();
        match op {
            ReadOp::ListTables => {
                trace.push("tables()".into());
                let _ = pkg.tables().map(|t| (t.name().len(), t.columns().len(), t.primary_key_indices().len())).count();
            }
            ReadOp::Describe(s) => {
                let t = tname(*s);
                trace.push(format!("describe({t})"));
                if let Some(table) = pkg.get_table(&t) {
                    for c in table.columns() {
                        let _ = (c.name(), c.coltype(), c.is_nullable(), c.is_primary_key(), c.is_localizable(), c.value_range(), c.category(), c.enum_values());
                    }
                    let _ = table.has_column("k");
                }
                let _ = pkg.has_table(&t);
                let _ = pkg.database_codepage();
                let _ = pkg.package_type();
            }
            ReadOp::SelectAll(s) => {
                let t = tname(*s);
                trace.push(format!("select * from {t}"));
                if let Ok(rows) = pkg.select_rows(Select::table(t.as_str())) {
                    for r in rows {
                        for i in 0..r.len() {
                            let _ = &r[i];
                        }
                    }
                }
            }
            ReadOp::SelectWhere(s, c, v) => {
                let t = tname(*s);
                let col = pkg.get_table(&t).map(|tb| tb.columns()[pick(*c, tb.columns().len())].name().to_string()).unwrap_or_default();
                // the condition takes several shapes: a lone equality with a
                // text that is in the pool, with one that is not, with the
                // value an existing row holds, a null test, an integer test
                let held: Option<Value> = pkg.select_rows(Select::table(t.as_str()).columns(&[col.as_str()])).ok().and_then(|mut rows| rows.next().map(|r| r[0].clone()));
                let cond = match v.rem_euclid(6) {
                    0 => Expr::col(col.as_str()).ge(Expr::integer(*v)).or(Expr::col(col.as_str()).eq(Expr::string("a"))),
                    1 => Expr::col(col.as_str()).eq(Expr::string("a")),
                    2 => Expr::col(col.as_str()).eq(Expr::string("a text no package of this run holds")),
                    3 => match held {
                        Some(Value::Str(text)) => Expr::col(col.as_str()).eq(Expr::string(text.as_str())),
                        Some(Value::Int(i)) => Expr::col(col.as_str()).eq(Expr::integer(i)),
                        _ => Expr::col(col.as_str()).eq(Expr::null()),
                    },
                    4 => Expr::col(col.as_str()).ne(Expr::null()),
                    _ => Expr::col(col.as_str()).eq(Expr::integer(*v)),
                };
                trace.push(format!("select from {t} where {cond}"));
                if let Ok(rows) = pkg.select_rows(Select::table(t.as_str()).with(cond)) {
                    let _ = rows.count();
                }
            }
            ReadOp::SelectColumns(s, c) => {
                let t = tname(*s);
                let col = pkg.get_table(&t).map(|tb| tb.columns()[pick(*c, tb.columns().len())].name().to_string()).unwrap_or_default();
                trace.push(format!("select {col} from {t}"));
                if let Ok(rows) = pkg.select_rows(Select::table(t.as_str()).columns(&[col.as_str()])) {
                    let _ = rows.count();
                }
            }
            ReadOp::Join(a, b, left) => {
                let (ta, tb) = (tname(*a), tname(*b));
                trace.push(format!("join {ta} {tb}"));
                let q = if *left { Select::table(ta.as_str()).left_join(Select::table(tb.as_str()), Expr::boolean(true)) } else { Select::table(ta.as_str()).inner_join(Select::table(tb.as_str()), Expr::boolean(true)) };
                if let Ok(rows) = pkg.select_rows(q) {
                    let _ = rows.take(500).count();
                }
            }
            ReadOp::Summary => {
                trace.push("summary getters".into());
                let s = pkg.summary_info();
                let _ = (s.arch(), s.author(), s.codepage(), s.comments(), s.creating_application(), s.creation_time(), s.languages(), s.subject(), s.title(), s.uuid(), s.word_count());
            }
            ReadOp::ListStreams => {
                trace.push("streams()".into());
                let _ = pkg.streams().count();
            }
            ReadOp::ReadStream(s) => {
                if streams.is_empty() {
                    continue;
                }
                let n = &streams[pick(*s, streams.len())];
                trace.push(format!("read_stream({n:?})"));
                if let Ok(mut r) = pkg.read_stream(n) {
                    let mut b = Vec::new();
                    let _ = r.read_to_end(&mut b);
                }
            }
            ReadOp::HasStream(k) => {
                let n = ["Binary.a", "NoSuchStream", "", "\u{4840}_Tables"][(*k % 4) as usize];
                trace.push(format!("has_stream({n:?})"));
                let _ = pkg.has_stream(n);
            }
            ReadOp::HasSignature => {
                trace.push("has_digital_signature".into());
                let _ = pkg.has_digital_signature();
            }
            ReadOp::FailingSelect(k) => {
                trace.push("failing select".into());
                let q = match k % 3 {
                    0 => Select::table("NoSuchTable"),
                    1 => Select::table("_Tables").columns(&["NoSuchColumn"]),
                    _ => Select::table("_Tables").with(Expr::col("Nope").eq(Expr::integer(1))),
                };
                let _ = pkg.select_rows(q).map(|r| r.count());
            }
            ReadOp::FailingStream(k) => {
                trace.push("failing read_stream".into());
                let n = ["NoSuchStream", "", "a/b", "\u{4840}x"][(*k % 4) as usize];
                let _ = pkg.read_stream(n).map(|_| ());
            }
        }
        let w = counts.borrow().writes;
        if w > 0 {
            return Err(Fail::new(format!("{P} wrote-during-read call={}", trace.last().map(|s| s.split(['(', ' ']).next().unwrap_or("")).unwrap_or("")), format!("{w} write call(s) reached the medium during a read-only session: {}", trace.join("; "))));
        }
    }
    let mode = case.close % 3;
    // one session in eight meets a medium whose own flush() fails once: the
    // session is still read-only, whatever closes it next must not write
    if (case.close / 3) % 8 == 5 {
        *flush_failures.borrow_mut() = 1;
        let _ = pkg.flush();
        *flush_failures.borrow_mut() = 0;
        trace.push("flush() while the medium's flush fails".into());
        st.class("medium-flush-failed-once");
    }
    match mode {
        0 => {
            pkg.flush().map_err(|e| Fail::new(format!("{P} flush-failed"), format!("flush of an unmodified package failed: {e}")))?;
            drop(pkg);
        }
        1 => {
            let _ = pkg.into_inner().map_err(|e| Fail::new(format!("{P} into-inner-failed"), format!("into_inner of an unmodified package failed: {e}")))?;
        }
        _ => drop(pkg),
    }
    let c = counts.borrow().clone();
    if c.writes > 0 {
        return Err(Fail::new(format!("{P} wrote-on-close mode={mode}"), format!("{} write call(s) ({} bytes) reached the medium when the read-only session was closed (mode {mode}): {}", c.writes, c.bytes_written, trace.join("; "))));
    }
    if shared.contents() != bytes {
        return Err(Fail::new(format!("{P} bytes-changed"), format!("the medium's bytes differ after a read-only session: {}", trace.join("; "))));
    }
    st.class(match case.source {
        Source::Library(_) => "source:library",
        Source::Foreign(_) => "source:foreign",
    });
    if case.signed {
        st.class("signed");
    }
    st.class(["close:flush", "close:into_inner", "close:drop"][mode as usize]);
    if case.reads.len() >= 3 {
        st.nontrivial(case);
    }
    Ok(())
}

fn read_op() -> impl Strategy<Value = ReadOp> {
    prop_oneof![
        1 => Just(ReadOp::ListTables),
        2 => any::<u16>().prop_map(ReadOp::Describe),
        3 => any::<u16>().prop_map(ReadOp::SelectAll),
        2 => (any::<u16>(), any::<u16>(), -3i32..40).prop_map(|(a, b, c)| ReadOp::SelectWhere(a, b, c)),
        2 => (any::<u16>(), any::<u16>()).prop_map(|(a, b)| ReadOp::SelectColumns(a, b)),
        2 => (any::<u16>(), any::<u16>(), any::<bool>()).prop_map(|(a, b, c)| ReadOp::Join(a, b, c)),
        2 => Just(ReadOp::Summary),
        1 => Just(ReadOp::ListStreams),
        2 => any::<u16>().prop_map(ReadOp::ReadStream),
        1 => any::<u8>().prop_map(ReadOp::HasStream),
        1 => Just(ReadOp::HasSignature),
        1 => any::<u8>().prop_map(ReadOp::FailingSelect),
        1 => any::<u8>().prop_map(ReadOp::FailingStream),
    ]
}

pub fn run(ctx: &Ctx) -> Report {
    let mut rep = Report::new(
        "exploration",
        "packages produced by the C01 generator (library-written histories), by the C02 generator (foreign layouts from the independent encoder) and signed variants of both; on each, a generated sequence of read-only calls (table and column inspection, selects with conditions and projections, inner and left joins, all summary getters, stream listing and reading, has_stream / has_digital_signature, failing selects and failing stream reads), then one of the three ways of closing. Oracle: a counting medium sees zero write calls after every call and after closing, and the bytes are identical. Non-trivial = a session with at least three read calls; distinct by (source, call list).",
    );
    let mut st = Stats::new();
    let v = search(
        ctx,
        "session",
        ctx.tier.pick(40_000, 400_000),
        || {
            let source = prop_oneof![
                3 => seq::seq_case(W_PERSIST, 8).prop_map(Source::Library),
                2 => db_strategy().prop_map(|d| Source::Foreign(Box::new(d))),
            ];
            (source, prop::bool::weighted(0.25), prop::collection::vec(read_op(), 0..10), any::<u8>()).prop_map(|(source, signed, reads, close)| Case { source, signed, reads, close })
        },
        |c: &Case, st| {
            st.eval();
            if st.wants_sample() && c.reads.len() > 3 && st.evaluations % 17 == 2 {
                st.sample(json!({"reads": c.reads, "close": c.close % 3, "signed": c.signed}));
            }
            check_case(c, st)
        },
        &mut st,
    );
    rep.push(v);
    rep.stats = st;
    rep
}

pub fn replay(_ctx: &Ctx, doc: &J) -> Check {
    let mut st = Stats::new();
    match doc["kind"].as_str().unwrap_or("") {
        "session" => check_case(&serde_json::from_value::<Case>(doc["case"].clone()).map_err(|e| Fail::new(format!("{P} bad-replay"), e.to_string()))?, &mut st),
        k => Err(Fail::new(format!("{P} bad-replay"), format!("unknown case kind {k:?}"))),
    }
}
