//! C19 — printed queries mean what the query objects mean.

use crate::engine::{par_enumerate, search, Check, Ctx, Fail, Report, Stats};
use crate::pestq;
use crate::refeval::{build, eval_ref, folded_shape, lex, read_expr, Bin, Reader, Tok, Un, ALL_BIN, ALL_UN, E, V};
use msi::{Delete, Insert, Select, Update};
use proptest::prelude::*;
use serde::{Deserialize, Serialize};
use serde_json::{json, Value as J};

const P: &str = "C19";

const COLS: [&str; 3] = ["a", "b", "T.c"];

fn assignment_values() -> Vec<V> {
    vec![V::Null, V::Int(0), V::Int(1), V::Int(2), V::Int(-1), V::Str(String::new()), V::Str("x".into())]
}

fn level_of(e: &E) -> u8 {
    match e {
        E::Lit(_) | E::Col(_) => 12,
        E::Un(op, _) => op.level(),
        E::Bin(op, _, _) => op.level(),
    }
}

fn has_mixed_precedence(e: &E) -> bool {
    match e {
        E::Lit(_) | E::Col(_) => false,
        E::Un(op, a) => (level_of(a) < 12 && level_of(a) != op.level()) || has_mixed_precedence(a),
        E::Bin(op, a, b) => {
            (level_of(a) < 12 && level_of(a) != op.level())
                || (level_of(b) < 12 && level_of(b) != op.level())
                || has_mixed_precedence(a)
                || has_mixed_precedence(b)
        }
    }
}

/// Compares the meaning of the original tree and of the tree read back from
/// the printed text.
fn same_meaning(orig: &E, read: &E, text: &str) -> Check {
    // names the same columns and literal values
    let (mut c1, mut c2, mut l1, mut l2) = (Vec::new(), Vec::new(), Vec::new(), Vec::new());
    orig.columns(&mut c1);
    read.columns(&mut c2);
    orig.literals(&mut l1);
    read.literals(&mut l2);
    c1.sort();
    c2.sort();
    l1.sort();
    l2.sort();
    if c1 != c2 {
        return Err(Fail::new(format!("{P} columns-differ"), format!("{} printed as {text:?} names columns {c2:?} instead of {c1:?}", orig.show())));
    }
    if l1 != l2 {
        return Err(Fail::new(format!("{P} literals-differ"), format!("{} printed as {text:?} names literals {l2:?} instead of {l1:?}", orig.show())));
    }
    // evaluates identically on every assignment
    let mut cols = c1.clone();
    cols.dedup();
    let vals = assignment_values();
    let n = cols.len();
    let total: usize = vals.len().pow(n as u32);
    let step = if total > 400 { total / 343 + 1 } else { 1 };
    let mut idx = 0usize;
    while idx < total {
        let mut assign: Vec<V> = Vec::with_capacity(n);
        let mut k = idx;
        for _ in 0..n {
            assign.push(vals[k % vals.len()].clone());
            k /= vals.len();
        }
        let lookup = |c: &str| -> V { cols.iter().position(|x| x == c).map(|i| assign[i].clone()).unwrap_or(V::Null) };
        let want = eval_ref(orig, &lookup);
        let got = eval_ref(read, &lookup);
        if want != got {
            return Err(Fail::new(
                format!("{P} meaning-differs"),
                format!(
                    "{} prints as {text:?}, which reads as {}; with {:?} = {:?} the original gives {:?} and the text gives {:?}",
                    orig.show(), read.show(), cols, assign, want, got
                ),
            ));
        }
        idx += step;
    }
    Ok(())
}

/// One expression tree: print, read back with the harness reader (and with
/// the project's grammar where it accepts the text), compare meanings.
pub fn check_expr(e: &E) -> Check {
    // The library folds literal-only sub-trees while building; the object
    // whose meaning is printed is the folded tree.
    let Some(orig) = folded_shape(e) else { return Ok(()) };
    let text = build(e).to_string();
    let read = read_expr(&text).map_err(|err| {
        Fail::new(format!("{P} unreadable"), format!("{} prints as {text:?}, which cannot be read: {err}", orig.show()))
    })?;
    same_meaning(&orig, &read, &text)?;
    if let Some(pest_tree) = pestq::parse_expr(&text) {
        // second reader: wherever the project's grammar accepts the text, it
        // must denote the same expression as the harness reader's tree
        if pest_tree != read {
            same_meaning(&read, &pest_tree, &text).map_err(|f| {
                Fail::new(
                    format!("{P} readers-disagree"),
                    format!("harness reader and project grammar read {text:?} differently ({} vs {}): {}", read.show(), pest_tree.show(), f.detail),
                )
            })?;
        }
    }
    Ok(())
}

// ------------------------------------------------------------------------- //
// Queries.

#[derive(Clone, Debug, PartialEq, Serialize, Deserialize)]
pub enum From {
    Table(String),
    Join { left: bool, lhs: Box<Sel>, rhs: Box<Sel>, on: E },
}

#[derive(Clone, Debug, PartialEq, Serialize, Deserialize)]
pub struct Sel {
    pub from: From,
    pub cols: Vec<String>,
    pub conds: Vec<E>,
}

#[derive(Clone, Debug, PartialEq, Serialize, Deserialize)]
pub enum Q {
    Select(Sel),
    Insert { table: String, rows: Vec<Vec<V>> },
    Update { table: String, sets: Vec<(String, V)>, conds: Vec<E> },
    Delete { table: String, conds: Vec<E> },
}

fn build_sel(s: &Sel) -> Select {
    let mut q = match &s.from {
        From::Table(t) => Select::table(t.as_str()),
        From::Join { left, lhs, rhs, on } => {
            if *left {
                build_sel(lhs).left_join(build_sel(rhs), build(on))
            } else {
                build_sel(lhs).inner_join(build_sel(rhs), build(on))
            }
        }
    };
    if !s.cols.is_empty() {
        q = q.columns(&s.cols);
    }
    for c in &s.conds {
        q = q.with(build(c));
    }
    q
}

fn print_query(q: &Q) -> String {
    match q {
        Q::Select(s) => build_sel(s).to_string(),
        Q::Insert { table, rows } => {
            let mut i = Insert::into(table.as_str());
            for r in rows {
                i = i.row(r.iter().map(|v| v.to_msi()).collect());
            }
            i.to_string()
        }
        Q::Update { table, sets, conds } => {
            let mut u = Update::table(table.as_str());
            for (c, v) in sets {
                u = u.set(c.as_str(), v.to_msi());
            }
            for c in conds {
                u = u.with(build(c));
            }
            u.to_string()
        }
        Q::Delete { table, conds } => {
            let mut d = Delete::from(table.as_str());
            for c in conds {
                d = d.with(build(c));
            }
            d.to_string()
        }
    }
}

/// The condition a list of `with` calls denotes: their conjunction, in order.
fn conj(conds: &[E]) -> Option<E> {
    let mut it = conds.iter();
    let first = folded_shape(it.next()?)?;
    let mut acc = first;
    for c in it {
        acc = E::bin(Bin::And, acc, folded_shape(c)?);
    }
    Some(acc)
}

/// What was read back from a printed query.
#[derive(Clone, Debug, PartialEq)]
enum RFrom {
    Table(String),
    Join { left: bool, lhs: Box<RSel>, rhs: Box<RSel>, on: E },
}
#[derive(Clone, Debug, PartialEq)]
struct RSel {
    from: RFrom,
    cols: Vec<String>,
    cond: Option<E>,
}
#[derive(Clone, Debug, PartialEq)]
enum RQ {
    Select(RSel),
    Insert { table: String, rows: Vec<Vec<V>> },
    Update { table: String, sets: Vec<(String, V)>, cond: Option<E> },
    Delete { table: String, cond: Option<E> },
}

fn expect_kw(r: &mut Reader, kw: &str) -> Result<(), String> {
    match r.next() {
        Some(Tok::Kw(k)) if k == kw => Ok(()),
        t => Err(format!("expected {kw}, found {t:?}")),
    }
}
fn expect_ident(r: &mut Reader) -> Result<String, String> {
    match r.next() {
        Some(Tok::Ident(s)) => Ok(s),
        t => Err(format!("expected a name, found {t:?}")),
    }
}
fn peek_kw(r: &Reader, kw: &str) -> bool {
    matches!(r.peek(), Some(Tok::Kw(k)) if *k == kw)
}
fn read_literal(r: &mut Reader) -> Result<V, String> {
    match r.next() {
        Some(Tok::Kw("NULL")) => Ok(V::Null),
        Some(Tok::Int(n)) if n <= i32::MAX as i64 => Ok(V::Int(n as i32)),
        Some(Tok::Str(s)) => Ok(V::Str(s)),
        Some(Tok::Op("-")) => match r.next() {
            Some(Tok::Int(n)) if -n >= i32::MIN as i64 => Ok(V::Int((-n) as i32)),
            t => Err(format!("expected digits after '-', found {t:?}")),
        },
        t => Err(format!("expected a literal, found {t:?}")),
    }
}
fn read_where(r: &mut Reader) -> Result<Option<E>, String> {
    if peek_kw(r, "WHERE") {
        r.next();
        Ok(Some(r.expr()?))
    } else {
        Ok(None)
    }
}
fn read_side(r: &mut Reader) -> Result<RSel, String> {
    match r.next() {
        Some(Tok::Ident(t)) => Ok(RSel { from: RFrom::Table(t), cols: vec![], cond: None }),
        Some(Tok::LParen) => {
            let s = read_select(r)?;
            match r.next() {
                Some(Tok::RParen) => Ok(s),
                t => Err(format!("expected ')', found {t:?}")),
            }
        }
        t => Err(format!("expected a table or a sub-select, found {t:?}")),
    }
}
fn read_select(r: &mut Reader) -> Result<RSel, String> {
    expect_kw(r, "SELECT")?;
    let mut cols = Vec::new();
    if matches!(r.peek(), Some(Tok::Star)) {
        r.next();
    } else {
        loop {
            cols.push(expect_ident(r)?);
            if matches!(r.peek(), Some(Tok::Comma)) {
                r.next();
            } else {
                break;
            }
        }
    }
    expect_kw(r, "FROM")?;
    let lhs = read_side(r)?;
    let from = if peek_kw(r, "INNER") || peek_kw(r, "LEFT") {
        let left = peek_kw(r, "LEFT");
        r.next();
        expect_kw(r, "JOIN")?;
        let rhs = read_side(r)?;
        expect_kw(r, "ON")?;
        let on = r.expr()?;
        RFrom::Join { left, lhs: Box::new(lhs), rhs: Box::new(rhs), on }
    } else {
        // "FROM T" or "FROM (SELECT ...)": the latter cannot be printed by the
        // library for a plain table, keep what was read
        if lhs.cols.is_empty() && lhs.cond.is_none() {
            lhs.from
        } else {
            return Err("sub-select without a join".into());
        }
    };
    let cond = read_where(r)?;
    Ok(RSel { from, cols, cond })
}

fn read_query(text: &str) -> Result<RQ, String> {
    let toks = lex(text)?;
    let mut r = Reader::new(&toks);
    let q = match r.peek() {
        Some(Tok::Kw("SELECT")) => RQ::Select(read_select(&mut r)?),
        Some(Tok::Kw("INSERT")) => {
            r.next();
            expect_kw(&mut r, "INTO")?;
            let table = expect_ident(&mut r)?;
            let mut rows = Vec::new();
            if peek_kw(&r, "VALUES") {
                r.next();
                loop {
                    match r.next() {
                        Some(Tok::LParen) => {}
                        t => return Err(format!("expected '(', found {t:?}")),
                    }
                    let mut row = Vec::new();
                    loop {
                        row.push(read_literal(&mut r)?);
                        match r.next() {
                            Some(Tok::Comma) => {}
                            Some(Tok::RParen) => break,
                            t => return Err(format!("expected ',' or ')', found {t:?}")),
                        }
                    }
                    rows.push(row);
                    if matches!(r.peek(), Some(Tok::Comma)) {
                        r.next();
                    } else {
                        break;
                    }
                }
            }
            RQ::Insert { table, rows }
        }
        Some(Tok::Kw("UPDATE")) => {
            r.next();
            let table = expect_ident(&mut r)?;
            expect_kw(&mut r, "SET")?;
            let mut sets = Vec::new();
            loop {
                let c = expect_ident(&mut r)?;
                match r.next() {
                    Some(Tok::Op("=")) => {}
                    t => return Err(format!("expected '=', found {t:?}")),
                }
                sets.push((c, read_literal(&mut r)?));
                if matches!(r.peek(), Some(Tok::Comma)) {
                    r.next();
                } else {
                    break;
                }
            }
            let cond = read_where(&mut r)?;
            RQ::Update { table, sets, cond }
        }
        Some(Tok::Kw("DELETE")) => {
            r.next();
            expect_kw(&mut r, "FROM")?;
            let table = expect_ident(&mut r)?;
            let cond = read_where(&mut r)?;
            RQ::Delete { table, cond }
        }
        t => return Err(format!("unexpected start of query {t:?}")),
    };
    if !r.at_end() {
        return Err(format!("trailing tokens: {:?}", &toks[r.pos..]));
    }
    Ok(q)
}

fn cmp_cond(want: &Option<E>, got: &Option<E>, text: &str, what: &str) -> Check {
    match (want, got) {
        (None, None) => Ok(()),
        (Some(w), Some(g)) => same_meaning(w, g, text),
        _ => Err(Fail::new(format!("{P} query-structure part={what}"), format!("{text:?}: {what} condition present on one side only"))),
    }
}

fn cmp_sel(want: &Sel, got: &RSel, text: &str) -> Check {
    if want.cols != got.cols {
        return Err(Fail::new(format!("{P} query-structure part=columns"), format!("{text:?} reads with columns {:?}, the query has {:?}", got.cols, want.cols)));
    }
    let wc = if want.conds.is_empty() { None } else { Some(conj(&want.conds).ok_or_else(|| Fail::new(format!("{P} skip"), "unspecified folding"))?) };
    cmp_cond(&wc, &got.cond, text, "where")?;
    match (&want.from, &got.from) {
        (From::Table(a), RFrom::Table(b)) => {
            if a != b {
                return Err(Fail::new(format!("{P} query-structure part=table"), format!("{text:?} reads table {b:?}, the query has {a:?}")));
            }
            Ok(())
        }
        (From::Join { left, lhs, rhs, on }, RFrom::Join { left: l2, lhs: lhs2, rhs: rhs2, on: on2 }) => {
            if left != l2 {
                return Err(Fail::new(format!("{P} query-structure part=join-kind"), format!("{text:?} reads the wrong kind of join")));
            }
            let won = folded_shape(on).ok_or_else(|| Fail::new(format!("{P} skip"), "unspecified folding"))?;
            same_meaning(&won, on2, text)?;
            cmp_sel(lhs, lhs2, text)?;
            cmp_sel(rhs, rhs2, text)
        }
        _ => Err(Fail::new(format!("{P} query-structure part=join-tree"), format!("{text:?} reads with a different join structure than the query object"))),
    }
}

pub fn check_query(q: &Q) -> Check {
    let text = print_query(q);
    let read = read_query(&text).map_err(|err| Fail::new(format!("{P} query-unreadable"), format!("{text:?} cannot be read back: {err}")))?;
    let r = match (q, &read) {
        (Q::Select(s), RQ::Select(r)) => cmp_sel(s, r, &text),
        (Q::Insert { table, rows }, RQ::Insert { table: t2, rows: r2 }) => {
            if table != t2 || rows != r2 {
                Err(Fail::new(format!("{P} query-structure part=insert"), format!("{text:?} reads as table {t2:?} rows {r2:?}; the query has {table:?} {rows:?}")))
            } else {
                Ok(())
            }
        }
        (Q::Update { table, sets, conds }, RQ::Update { table: t2, sets: s2, cond }) => {
            if table != t2 || sets != s2 {
                return Err(Fail::new(format!("{P} query-structure part=update"), format!("{text:?} reads as table {t2:?} assignments {s2:?}; the query has {table:?} {sets:?}")));
            }
            let wc = if conds.is_empty() { None } else { conj(conds) };
            if !conds.is_empty() && wc.is_none() {
                return Ok(());
            }
            cmp_cond(&wc, cond, &text, "where")
        }
        (Q::Delete { table, conds }, RQ::Delete { table: t2, cond }) => {
            if table != t2 {
                return Err(Fail::new(format!("{P} query-structure part=delete"), format!("{text:?} reads table {t2:?}; the query has {table:?}")));
            }
            let wc = if conds.is_empty() { None } else { conj(conds) };
            if !conds.is_empty() && wc.is_none() {
                return Ok(());
            }
            cmp_cond(&wc, cond, &text, "where")
        }
        _ => Err(Fail::new(format!("{P} query-structure part=kind"), format!("{text:?} reads as a different kind of query"))),
    };
    match r {
        Err(f) if f.sig == format!("{P} skip") => Ok(()),
        other => other,
    }
}

// ------------------------------------------------------------------------- //
// Generators.

fn leaf() -> impl Strategy<Value = E> {
    prop_oneof![
        4 => prop::sample::select(COLS.to_vec()).prop_map(|c| E::Col(c.to_string())),
        1 => Just(E::Lit(V::Null)),
        2 => prop::sample::select(vec![0, 1, -1, 2, 7, -5, 31, i32::MAX, i32::MIN]).prop_map(|i| E::Lit(V::Int(i))),
        1 => "[a-zA-Z0-9 _.,;:+*/-]{0,4}".prop_map(|s| E::Lit(V::Str(s))),
    ]
}

fn tree(depth: u32) -> impl Strategy<Value = E> {
    leaf().prop_recursive(depth, 40, 2, |inner| {
        prop_oneof![
            2 => (prop::sample::select(ALL_UN.to_vec()), inner.clone()).prop_map(|(op, a)| E::un(op, a)),
            5 => (prop::sample::select(ALL_BIN.to_vec()), inner.clone(), inner).prop_map(|(op, a, b)| E::bin(op, a, b)),
        ]
    })
}

fn ident() -> impl Strategy<Value = String> {
    prop::sample::select(vec!["T", "U", "Tab_1", "x9", "_t"]).prop_map(|s| s.to_string())
}

fn colname() -> impl Strategy<Value = String> {
    prop::sample::select(vec!["a", "b", "c", "T.a", "U.b", "Tab_1.c", "k"]).prop_map(|s| s.to_string())
}

fn value() -> impl Strategy<Value = V> {
    prop_oneof![
        Just(V::Null),
        prop::sample::select(vec![0, 1, -1, 65536, i32::MAX, -i32::MAX]).prop_map(V::Int),
        "[a-zA-Z0-9 _.,;:()=-]{0,5}".prop_map(V::Str),
    ]
}

fn sel(depth: u32) -> impl Strategy<Value = Sel> {
    let base = (ident(), prop::collection::vec(colname(), 0..3), prop::collection::vec(tree(2), 0..3))
        .prop_map(|(t, cols, conds)| Sel { from: From::Table(t), cols, conds });
    base.prop_recursive(depth, 12, 2, |inner| {
        (any::<bool>(), inner.clone(), inner, tree(2), prop::collection::vec(colname(), 0..3), prop::collection::vec(tree(2), 0..2)).prop_map(
            |(left, lhs, rhs, on, cols, conds)| Sel { from: From::Join { left, lhs: Box::new(lhs), rhs: Box::new(rhs), on }, cols, conds },
        )
    })
}

fn query() -> impl Strategy<Value = Q> {
    prop_oneof![
        4 => sel(3).prop_map(Q::Select),
        2 => (ident(), prop::collection::vec(prop::collection::vec(value(), 1..4), 0..4)).prop_map(|(table, rows)| Q::Insert { table, rows }),
        2 => (ident(), prop::collection::vec((colname().prop_filter("plain name", |c| !c.contains('.')), value()), 1..4), prop::collection::vec(tree(3), 0..3))
            .prop_map(|(table, sets, conds)| Q::Update { table, sets, conds }),
        2 => (ident(), prop::collection::vec(tree(3), 0..3)).prop_map(|(table, conds)| Q::Delete { table, conds }),
    ]
}

fn is_join(s: &Sel) -> bool {
    matches!(s.from, From::Join { .. })
}

/// All depth-2 shapes: every (parent operator, child operator, side).
fn pair_trees() -> Vec<E> {
    let x = || E::Col("a".into());
    let y = || E::Col("b".into());
    let z = || E::Col("T.c".into());
    let mut children: Vec<E> = Vec::new();
    for op in ALL_UN {
        children.push(E::un(op, x()));
    }
    for op in ALL_BIN {
        children.push(E::bin(op, x(), y()));
    }
    let mut out = Vec::new();
    for c in &children {
        for op in ALL_UN {
            out.push(E::un(op, c.clone()));
        }
        for op in ALL_BIN {
            out.push(E::bin(op, c.clone(), z()));
            out.push(E::bin(op, z(), c.clone()));
            out.push(E::bin(op, c.clone(), c.clone()));
        }
    }
    // the same with literal leaves on one side
    for c in &children {
        for op in ALL_BIN {
            out.push(E::bin(op, c.clone(), E::Lit(V::Int(-5))));
            out.push(E::bin(op, E::Lit(V::Int(-5)), c.clone()));
            out.push(E::bin(op, E::Lit(V::Str("x".into())), c.clone()));
        }
    }
    out
}

pub fn run(ctx: &Ctx) -> Report {
    let mut rep = Report::new(
        "exploration",
        "expression trees: every (parent operator, child operator, side) combination at depth 2 over all 18 operators (enumerated), proptest-generated trees to depth 5 (literals without characters needing escapes), each printed with to_string(), read back with the harness's precedence-climbing reader (and with the project's pest grammar where it accepts the text) and compared by reference evaluation on all assignments of {null,0,1,2,-1,'','x'} to the columns plus column/literal multisets; the four query kinds with nested joins, projections, assignments and multi-row inserts read back structurally. Non-trivial = a tree with at least one parent/child pair of different precedence, or a query containing a join or a condition; distinct by tree / query.",
    );
    let mut st = Stats::new();

    let pairs = pair_trees();
    let v = par_enumerate(ctx, "expr", &pairs, |e, st| {
        st.eval();
        if has_mixed_precedence(e) {
            st.nontrivial(e);
            st.class("pair:mixed-precedence");
        } else {
            st.class("pair:same-level");
        }
        if st.wants_sample() && st.evaluations % 211 == 5 {
            st.sample(json!({"tree": e.show(), "printed": build(e).to_string()}));
        }
        check_expr(e)
    }, &mut st);
    rep.push(v);

    let v = search(ctx, "expr", ctx.tier.pick(400_000, 4_000_000), || tree(5), |e: &E, st| {
        st.eval();
        if has_mixed_precedence(e) {
            st.nontrivial(e);
            st.class("gen:mixed-precedence");
        } else {
            st.class("gen:flat");
        }
        let text = build(e).to_string();
        if !text.contains('(') && !text.contains('^') {
            st.class("gen:also-read-by-project-grammar");
        }
        check_expr(e)
    }, &mut st);
    rep.push(v);

    let v = search(ctx, "query", ctx.tier.pick(100_000, 1_000_000), query, |q: &Q, st| {
        st.eval();
        let interesting = match q {
            Q::Select(s) => is_join(s) || !s.conds.is_empty(),
            Q::Insert { rows, .. } => rows.len() > 1,
            Q::Update { conds, .. } | Q::Delete { conds, .. } => !conds.is_empty(),
        };
        if interesting {
            st.nontrivial(&format!("{:?}", q));
        }
        st.class(match q {
            Q::Select(s) if is_join(s) => "query:select-join",
            Q::Select(_) => "query:select",
            Q::Insert { .. } => "query:insert",
            Q::Update { .. } => "query:update",
            Q::Delete { .. } => "query:delete",
        });
        if st.wants_sample() && interesting && st.evaluations % 97 == 3 {
            st.sample(json!({"printed": print_query(q)}));
        }
        check_query(q)
    }, &mut st);
    rep.push(v);

    rep.stats = st;
    rep
}

pub fn replay(_ctx: &Ctx, doc: &J) -> Check {
    let kind = doc["kind"].as_str().unwrap_or("");
    let bad = |e: serde_json::Error| Fail::new(format!("{P} bad-replay"), e.to_string());
    match kind {
        "expr" => check_expr(&serde_json::from_value::<E>(doc["case"].clone()).map_err(bad)?),
        "query" => check_query(&serde_json::from_value::<Q>(doc["case"].clone()).map_err(bad)?),
        _ => Err(Fail::new(format!("{P} bad-replay"), format!("unknown case kind {kind:?}"))),
    }
}

#[allow(dead_code)]
fn _unused(_: Un) {}
