//! Independent codec of the MSI file format, written from the format
//! description (Wine dlls/msi notes, libmsi docs, MS-OLEPS), sharing only the
//! `cfb` container crate with the library.  Text conversion goes through the
//! code-page oracle (`cpref`), never through `msi::CodePage`.

use crate::cpref;
use std::collections::BTreeMap;
use std::io::{Cursor, Read, Write};

// ------------------------------------------------------------------------- //
// Stream names.

const TABLE_MARK: u32 = 0x4840;

fn b64_val(c: char) -> Option<u32> {
    match c {
        '0'..='9' => Some(c as u32 - '0' as u32),
        'A'..='Z' => Some(c as u32 - 'A' as u32 + 10),
        'a'..='z' => Some(c as u32 - 'a' as u32 + 36),
        '.' => Some(62),
        '_' => Some(63),
        _ => None,
    }
}

fn b64_char(v: u32) -> char {
    match v {
        0..=9 => char::from_u32('0' as u32 + v).unwrap(),
        10..=35 => char::from_u32('A' as u32 + v - 10).unwrap(),
        36..=61 => char::from_u32('a' as u32 + v - 36).unwrap(),
        62 => '.',
        _ => '_',
    }
}

/// Packs a logical name into the container name (two base-64 characters per
/// UTF-16 unit in U+3800..U+47FF, one in U+4800..U+483F, table marker U+4840).
pub fn encode_name(name: &str, is_table: bool) -> String {
    let cs: Vec<char> = name.chars().collect();
    let mut out = String::new();
    if is_table {
        out.push(char::from_u32(TABLE_MARK).unwrap());
    }
    let mut i = 0;
    while i < cs.len() {
        match b64_val(cs[i]) {
            Some(v1) => {
                if i + 1 < cs.len() {
                    if let Some(v2) = b64_val(cs[i + 1]) {
                        out.push(char::from_u32(0x3800 + (v2 << 6) + v1).unwrap());
                        i += 2;
                        continue;
                    }
                }
                out.push(char::from_u32(0x4800 + v1).unwrap());
                i += 1;
            }
            None => {
                out.push(cs[i]);
                i += 1;
            }
        }
    }
    out
}

/// Unpacks a container name: (logical name, is_table).
pub fn decode_name(raw: &str) -> (String, bool) {
    let mut out = String::new();
    let mut is_table = false;
    for (i, c) in raw.chars().enumerate() {
        let u = c as u32;
        if i == 0 && u == TABLE_MARK {
            is_table = true;
        } else if (0x3800..0x4800).contains(&u) {
            let v = u - 0x3800;
            out.push(b64_char(v & 0x3f));
            out.push(b64_char(v >> 6));
        } else if (0x4800..0x4840).contains(&u) {
            out.push(b64_char(u - 0x4800));
        } else {
            out.push(c);
        }
    }
    (out, is_table)
}

pub const SUMMARY_STREAM: &str = "\u{5}SummaryInformation";
pub const DOC_SUMMARY_STREAM: &str = "\u{5}DocumentSummaryInformation";
pub const SIGNATURE_STREAM: &str = "\u{5}DigitalSignature";
pub const SIGNATURE_EX_STREAM: &str = "\u{5}MsiDigitalSignatureEx";

pub const CLSID_INSTALLER: &str = "000c1084-0000-0000-c000-000000000046";
pub const CLSID_PATCH: &str = "000c1086-0000-0000-c000-000000000046";
pub const CLSID_TRANSFORM: &str = "000c1082-0000-0000-c000-000000000046";

pub fn clsid_for(ptype: u8) -> uuid::Uuid {
    uuid::Uuid::parse_str(match ptype % 3 {
        0 => CLSID_INSTALLER,
        1 => CLSID_PATCH,
        _ => CLSID_TRANSFORM,
    })
    .unwrap()
}

// ------------------------------------------------------------------------- //
// Column type word.

pub const T_VALID: i32 = 0x100;
pub const T_LOCALIZABLE: i32 = 0x200;
pub const T_NONBINARY: i32 = 0x400;
pub const T_STRING: i32 = 0x800;
pub const T_NULLABLE: i32 = 0x1000;
pub const T_KEY: i32 = 0x2000;

#[derive(Clone, Copy, Debug, PartialEq, Eq)]
pub enum Storage {
    I16,
    I32,
    Str,
}

pub fn storage_of(type_word: i32) -> Result<Storage, String> {
    if type_word & T_STRING != 0 {
        Ok(Storage::Str)
    } else {
        match type_word & 0xff {
            4 => Ok(Storage::I32),
            2 | 1 => Ok(Storage::I16),
            w => Err(format!("integer column with field size {w}")),
        }
    }
}

// ------------------------------------------------------------------------- //
// Decoded database.

#[derive(Clone, Copy, Debug, PartialEq, Eq, Hash, PartialOrd, Ord)]
pub enum Cell {
    Null,
    Int(i32),
    Ref(u32),
}

#[derive(Clone, Debug)]
pub struct PoolEntry {
    pub bytes: Vec<u8>,
    pub refcount: u16,
}

#[derive(Clone, Debug)]
pub struct Pool {
    pub codepage_id: i32,
    pub long_refs: bool,
    /// entry i is string reference i + 1
    pub entries: Vec<PoolEntry>,
    pub data_len: usize,
    pub data_consumed: usize,
}

impl Pool {
    pub fn text(&self, reference: u32) -> Result<String, String> {
        if reference == 0 || reference as usize > self.entries.len() {
            return Err(format!("string reference {reference} outside the pool (1..={})", self.entries.len()));
        }
        let page = cpref::page_by_id(self.codepage_id).ok_or_else(|| format!("unknown code page {}", self.codepage_id))?;
        Ok(page.decode(&self.entries[reference as usize - 1].bytes))
    }
}

#[derive(Clone, Debug)]
pub struct DTable {
    /// (name, type word) in column order 1..n
    pub cols: Vec<(String, i32)>,
    pub rows: Vec<Vec<Cell>>,
    pub stream_len: usize,
}

#[derive(Clone, Debug)]
pub struct Decoded {
    pub clsid: uuid::Uuid,
    pub pool: Pool,
    /// every stream entry of the root storage, by raw container name
    pub raw_streams: BTreeMap<String, Vec<u8>>,
    /// names of root entries that are storages
    pub raw_storages: Vec<String>,
    /// `_Tables` rows (table names) in file order
    pub table_list: Vec<String>,
    /// `_Columns` rows in file order: (table, number, name, type word)
    pub column_list: Vec<(String, i32, String, i32)>,
    /// user tables (everything listed in `_Tables`), decoded per `_Columns`
    pub tables: BTreeMap<String, DTable>,
    /// raw cells of the two catalog tables (for reference counting)
    pub catalog_cells: Vec<Cell>,
}

fn rd_u16(b: &[u8], at: usize) -> Result<u16, String> {
    if at + 2 > b.len() {
        return Err(format!("read of 2 bytes at {at} beyond length {}", b.len()));
    }
    Ok(u16::from_le_bytes([b[at], b[at + 1]]))
}
fn rd_u32(b: &[u8], at: usize) -> Result<u32, String> {
    if at + 4 > b.len() {
        return Err(format!("read of 4 bytes at {at} beyond length {}", b.len()));
    }
    Ok(u32::from_le_bytes([b[at], b[at + 1], b[at + 2], b[at + 3]]))
}

pub fn decode_pool(pool: &[u8], data: &[u8]) -> Result<Pool, String> {
    let head = rd_u32(pool, 0)?;
    let long_refs = head & 0x8000_0000 != 0;
    let codepage_id = (head & 0x7fff_ffff) as i32;
    if (pool.len() - 4) % 4 != 0 {
        return Err(format!("_StringPool length {} is not 4 + 4n", pool.len()));
    }
    let mut entries = Vec::new();
    let mut at = 4;
    let mut off = 0usize;
    while at < pool.len() {
        let len16 = rd_u16(pool, at)? as usize;
        let rc = rd_u16(pool, at + 2)?;
        at += 4;
        let (len, refcount) = if len16 == 0 && rc != 0 {
            // long-string escape: (0, high word) then (low word, refcount)
            let lo = rd_u16(pool, at)? as usize;
            let rc2 = rd_u16(pool, at + 2)?;
            at += 4;
            (((rc as usize) << 16) | lo, rc2)
        } else {
            (len16, rc)
        };
        if off + len > data.len() {
            return Err(format!("pool entry {} needs bytes {}..{} of _StringData, which has {}", entries.len() + 1, off, off + len, data.len()));
        }
        entries.push(PoolEntry { bytes: data[off..off + len].to_vec(), refcount });
        off += len;
    }
    Ok(Pool { codepage_id, long_refs, entries, data_len: data.len(), data_consumed: off })
}

/// Decodes a column-major table stream.
pub fn decode_table(bytes: &[u8], type_words: &[i32], long_refs: bool) -> Result<Vec<Vec<Cell>>, String> {
    let mut widths = Vec::new();
    for t in type_words {
        widths.push(match storage_of(*t)? {
            Storage::I16 => 2usize,
            Storage::I32 => 4,
            Storage::Str => {
                if long_refs {
                    3
                } else {
                    2
                }
            }
        });
    }
    let row_width: usize = widths.iter().sum();
    if row_width == 0 {
        return Err("table without columns".into());
    }
    if bytes.len() % row_width != 0 {
        return Err(format!("stream of {} bytes is not a whole number of {row_width}-byte rows", bytes.len()));
    }
    let n = bytes.len() / row_width;
    let mut rows = vec![Vec::with_capacity(type_words.len()); n];
    let mut at = 0;
    for (ci, t) in type_words.iter().enumerate() {
        for row in rows.iter_mut() {
            let cell = match storage_of(*t)? {
                Storage::I16 => {
                    let raw = rd_u16(bytes, at)?;
                    if raw == 0 {
                        Cell::Null
                    } else {
                        Cell::Int((raw ^ 0x8000) as i16 as i32)
                    }
                }
                Storage::I32 => {
                    let raw = rd_u32(bytes, at)?;
                    if raw == 0 {
                        Cell::Null
                    } else {
                        Cell::Int((raw ^ 0x8000_0000) as i32)
                    }
                }
                Storage::Str => {
                    let mut r = rd_u16(bytes, at)? as u32;
                    if long_refs {
                        r |= (bytes[at + 2] as u32) << 16;
                    }
                    if r == 0 {
                        Cell::Null
                    } else {
                        Cell::Ref(r)
                    }
                }
            };
            row.push(cell);
            at += widths[ci];
        }
    }
    Ok(rows)
}

pub const TABLES_TYPES: [i32; 1] = [T_STRING | T_KEY | T_VALID | T_NONBINARY | 64];
pub const COLUMNS_TYPES: [i32; 4] = [
    T_STRING | T_KEY | T_VALID | T_NONBINARY | 64,
    T_KEY | T_VALID | T_NONBINARY | 2,
    T_STRING | T_VALID | T_NONBINARY | 64,
    T_VALID | T_NONBINARY | 2,
];

pub fn decode(bytes: &[u8]) -> Result<Decoded, String> {
    let mut comp = cfb::CompoundFile::open(Cursor::new(bytes.to_vec())).map_err(|e| format!("container: {e}"))?;
    let clsid = *comp.root_entry().clsid();
    let mut raw_names: Vec<(String, bool)> = Vec::new();
    for e in comp.read_root_storage() {
        raw_names.push((e.name().to_string(), e.is_stream()));
    }
    let mut raw_streams = BTreeMap::new();
    let mut raw_storages = Vec::new();
    for (name, is_stream) in raw_names {
        if is_stream {
            let mut buf = Vec::new();
            comp.open_stream(format!("/{}", name)).map_err(|e| format!("open {name:?}: {e}"))?.read_to_end(&mut buf).map_err(|e| format!("read {name:?}: {e}"))?;
            raw_streams.insert(name, buf);
        } else {
            raw_storages.push(name);
        }
    }
    let get = |logical: &str| -> Option<&Vec<u8>> { raw_streams.get(&encode_name(logical, true)) };
    let pool_bytes = get("_StringPool").ok_or("no _StringPool stream")?;
    let data_bytes = get("_StringData").ok_or("no _StringData stream")?;
    let pool = decode_pool(pool_bytes, data_bytes)?;
    let empty = Vec::new();
    let tables_rows = decode_table(get("_Tables").unwrap_or(&empty), &TABLES_TYPES, pool.long_refs).map_err(|e| format!("_Tables: {e}"))?;
    let columns_rows = decode_table(get("_Columns").unwrap_or(&empty), &COLUMNS_TYPES, pool.long_refs).map_err(|e| format!("_Columns: {e}"))?;
    let mut catalog_cells = Vec::new();
    let str_of = |c: &Cell, what: &str| -> Result<String, String> {
        match c {
            Cell::Ref(r) => pool.text(*r),
            other => Err(format!("{what}: expected a string, found {other:?}")),
        }
    };
    let int_of = |c: &Cell, what: &str| -> Result<i32, String> {
        match c {
            Cell::Int(i) => Ok(*i),
            other => Err(format!("{what}: expected an integer, found {other:?}")),
        }
    };
    let mut table_list = Vec::new();
    for r in &tables_rows {
        catalog_cells.extend(r.iter().cloned());
        table_list.push(str_of(&r[0], "_Tables.Name")?);
    }
    let mut column_list = Vec::new();
    for r in &columns_rows {
        catalog_cells.extend(r.iter().cloned());
        column_list.push((str_of(&r[0], "_Columns.Table")?, int_of(&r[1], "_Columns.Number")?, str_of(&r[2], "_Columns.Name")?, int_of(&r[3], "_Columns.Type")?));
    }
    let mut tables = BTreeMap::new();
    for t in &table_list {
        let mut cols: Vec<(i32, String, i32)> = column_list.iter().filter(|c| &c.0 == t).map(|c| (c.1, c.2.clone(), c.3)).collect();
        cols.sort();
        for (i, c) in cols.iter().enumerate() {
            if c.0 != i as i32 + 1 {
                return Err(format!("columns of table {t:?} are not numbered 1..n: {:?}", cols.iter().map(|c| c.0).collect::<Vec<_>>()));
            }
        }
        if cols.is_empty() {
            return Err(format!("table {t:?} has no columns in _Columns"));
        }
        let words: Vec<i32> = cols.iter().map(|c| c.2).collect();
        let stream = get(t).unwrap_or(&empty);
        let rows = decode_table(stream, &words, pool.long_refs).map_err(|e| format!("table {t:?}: {e}"))?;
        tables.insert(t.clone(), DTable { cols: cols.into_iter().map(|c| (c.1, c.2)).collect(), rows, stream_len: stream.len() });
    }
    Ok(Decoded { clsid, pool, raw_streams, raw_storages, table_list, column_list, tables, catalog_cells })
}

// ------------------------------------------------------------------------- //
// Property sets (MS-OLEPS subset used by the summary information stream).

#[derive(Clone, Debug, PartialEq)]
pub enum PVal {
    Empty,
    Null,
    I2(i16),
    I4(i32),
    I1(i8),
    LpStr(Vec<u8>),
    FileTime(u64),
}

#[derive(Clone, Debug)]
pub struct PropSet {
    pub version: u16,
    pub os_version: u16,
    pub os: u16,
    pub clsid: [u8; 16],
    pub fmtid: [u8; 16],
    pub section_offset: u32,
    pub section_size: u32,
    /// property id -> (offset inside the section, value), in file order
    pub props: Vec<(u32, u32, PVal)>,
}

pub const SUMMARY_FMTID: [u8; 16] = [0xe0, 0x85, 0x9f, 0xf2, 0xf9, 0x4f, 0x68, 0x10, 0xab, 0x91, 0x08, 0x00, 0x2b, 0x27, 0xb3, 0xd9];

impl PropSet {
    pub fn get(&self, id: u32) -> Option<&PVal> {
        self.props.iter().find(|p| p.0 == id).map(|p| &p.2)
    }
}

fn padded(n: usize) -> usize {
    (n + 3) & !3
}

/// Strict parse.  With `exact`, additionally requires what a writer of a fresh
/// stream must produce: values contiguous and the section size exactly the
/// end of the last value.
pub fn parse_propset(b: &[u8], exact: bool) -> Result<PropSet, String> {
    if rd_u16(b, 0)? != 0xfffe {
        return Err("bad byte-order mark".into());
    }
    let version = rd_u16(b, 2)?;
    if version > 1 {
        return Err(format!("format version {version}"));
    }
    let os_version = rd_u16(b, 4)?;
    let os = rd_u16(b, 6)?;
    let mut clsid = [0u8; 16];
    if b.len() < 48 {
        return Err(format!("stream of {} bytes is shorter than the 48-byte header", b.len()));
    }
    clsid.copy_from_slice(&b[8..24]);
    let nsections = rd_u32(b, 24)?;
    if nsections < 1 {
        return Err("no sections".into());
    }
    let mut fmtid = [0u8; 16];
    fmtid.copy_from_slice(&b[28..44]);
    let section_offset = rd_u32(b, 44)?;
    let so = section_offset as usize;
    let section_size = rd_u32(b, so)?;
    let count = rd_u32(b, so + 4)? as usize;
    if so + section_size as usize > b.len() {
        return Err(format!("section {}..{} beyond the stream ({} bytes)", so, so + section_size as usize, b.len()));
    }
    if 8 + 8 * count > section_size as usize {
        return Err(format!("{count} properties do not fit in a section of {section_size} bytes"));
    }
    let mut props = Vec::new();
    let mut max_end = 8 + 8 * count;
    let mut seen = std::collections::BTreeSet::new();
    for i in 0..count {
        let id = rd_u32(b, so + 8 + 8 * i)?;
        let off = rd_u32(b, so + 12 + 8 * i)?;
        if !seen.insert(id) {
            return Err(format!("property {id} listed twice"));
        }
        let o = off as usize;
        if o % 4 != 0 {
            return Err(format!("property {id}: offset {off} is not 4-byte aligned"));
        }
        if o < 8 + 8 * count || o + 4 > section_size as usize {
            return Err(format!("property {id}: offset {off} outside the value area of the section ({}..{section_size})", 8 + 8 * count));
        }
        let at = so + o;
        let ty = rd_u32(b, at)?;
        let (val, size) = match ty {
            0 => (PVal::Empty, 4),
            1 => (PVal::Null, 4),
            2 => (PVal::I2(rd_u16(b, at + 4)? as i16), 8),
            3 => (PVal::I4(rd_u32(b, at + 4)? as i32), 8),
            16 => {
                if version < 1 {
                    return Err(format!("property {id}: VT_I1 in a version-0 property set"));
                }
                if at + 5 > b.len() {
                    return Err(format!("property {id}: truncated"));
                }
                (PVal::I1(b[at + 4] as i8), 8)
            }
            30 => {
                let n = rd_u32(b, at + 4)? as usize;
                if n == 0 {
                    return Err(format!("property {id}: LPSTR with zero length count"));
                }
                if o + 8 + n > section_size as usize {
                    return Err(format!("property {id}: string of {n} bytes at offset {off} runs past the section end {section_size}"));
                }
                let bytes = &b[at + 8..at + 8 + n];
                if bytes[n - 1] != 0 {
                    return Err(format!("property {id}: string not NUL-terminated"));
                }
                (PVal::LpStr(bytes[..n - 1].to_vec()), 8 + n)
            }
            64 => {
                let lo = rd_u32(b, at + 4)? as u64;
                let hi = rd_u32(b, at + 8)? as u64;
                (PVal::FileTime((hi << 32) | lo), 12)
            }
            t => return Err(format!("property {id}: unknown value type {t}")),
        };
        if o + size > section_size as usize {
            return Err(format!("property {id}: value {off}..{} runs past the section end {section_size}", o + size));
        }
        max_end = max_end.max(o + padded(size));
        props.push((id, off, val));
    }
    if exact {
        if max_end != section_size as usize {
            return Err(format!("section size is {section_size} but the last value ends at {max_end}"));
        }
        // contiguous, in listed order
        let mut expect = 8 + 8 * count;
        let mut sorted: Vec<&(u32, u32, PVal)> = props.iter().collect();
        sorted.sort_by_key(|p| p.1);
        for p in sorted {
            if p.1 as usize != expect {
                return Err(format!("property {}: value at offset {} but the previous value ends at {expect}", p.0, p.1));
            }
            let size = match &p.2 {
                PVal::Empty | PVal::Null => 4,
                PVal::I2(_) | PVal::I4(_) | PVal::I1(_) => 8,
                PVal::LpStr(s) => 8 + s.len() + 1,
                PVal::FileTime(_) => 12,
            };
            expect += padded(size);
        }
        if so + section_size as usize != b.len() {
            return Err(format!("stream has {} bytes but the section ends at {}", b.len(), so + section_size as usize));
        }
    }
    Ok(PropSet { version, os_version, os, clsid, fmtid, section_offset, section_size, props })
}

/// Layout choices for the property-set encoder.
#[derive(Clone, Debug, Default)]
pub struct PropLayout {
    pub version: u16,
    /// extra bytes between the 48-byte header and the section
    pub header_gap: u32,
    /// extra padding (multiple of 4) inserted before value i
    pub gaps: Vec<u32>,
    /// order in which values are laid out (permutation of 0..n); the id/offset
    /// table keeps the given order
    pub value_order: Vec<usize>,
    pub trailing: u32,
}

pub fn encode_propset(props: &[(u32, PVal)], layout: &PropLayout) -> Vec<u8> {
    let n = props.len();
    let mut val_bytes: Vec<Vec<u8>> = Vec::new();
    for (_, v) in props {
        let mut b = Vec::new();
        match v {
            PVal::Empty => b.extend_from_slice(&0u32.to_le_bytes()),
            PVal::Null => b.extend_from_slice(&1u32.to_le_bytes()),
            PVal::I2(x) => {
                b.extend_from_slice(&2u32.to_le_bytes());
                b.extend_from_slice(&x.to_le_bytes());
                b.extend_from_slice(&[0, 0]);
            }
            PVal::I4(x) => {
                b.extend_from_slice(&3u32.to_le_bytes());
                b.extend_from_slice(&x.to_le_bytes());
            }
            PVal::I1(x) => {
                b.extend_from_slice(&16u32.to_le_bytes());
                b.push(*x as u8);
                b.extend_from_slice(&[0, 0, 0]);
            }
            PVal::LpStr(s) => {
                b.extend_from_slice(&30u32.to_le_bytes());
                b.extend_from_slice(&((s.len() + 1) as u32).to_le_bytes());
                b.extend_from_slice(s);
                b.push(0);
                while b.len() % 4 != 0 {
                    b.push(0);
                }
            }
            PVal::FileTime(t) => {
                b.extend_from_slice(&64u32.to_le_bytes());
                b.extend_from_slice(&t.to_le_bytes());
            }
        }
        val_bytes.push(b);
    }
    let order: Vec<usize> = if layout.value_order.len() == n { layout.value_order.clone() } else { (0..n).collect() };
    let mut offsets = vec![0u32; n];
    let mut at = 8 + 8 * n as u32;
    let mut area: Vec<u8> = Vec::new();
    for (k, &i) in order.iter().enumerate() {
        let gap = layout.gaps.get(k).copied().unwrap_or(0) & !3;
        area.extend(std::iter::repeat(0u8).take(gap as usize));
        at += gap;
        offsets[i] = at;
        area.extend_from_slice(&val_bytes[i]);
        at += val_bytes[i].len() as u32;
    }
    let trailing = layout.trailing & !3;
    area.extend(std::iter::repeat(0u8).take(trailing as usize));
    let section_size = at + trailing;
    let section_offset = 48 + (layout.header_gap & !3);
    let mut out = Vec::new();
    out.extend_from_slice(&0xfffeu16.to_le_bytes());
    out.extend_from_slice(&layout.version.min(1).to_le_bytes());
    out.extend_from_slice(&10u16.to_le_bytes());
    out.extend_from_slice(&2u16.to_le_bytes());
    out.extend_from_slice(&[0u8; 16]);
    out.extend_from_slice(&1u32.to_le_bytes());
    out.extend_from_slice(&SUMMARY_FMTID);
    out.extend_from_slice(&section_offset.to_le_bytes());
    out.extend(std::iter::repeat(0u8).take((section_offset - 48) as usize));
    out.extend_from_slice(&section_size.to_le_bytes());
    out.extend_from_slice(&(n as u32).to_le_bytes());
    for (i, (id, _)) in props.iter().enumerate() {
        out.extend_from_slice(&id.to_le_bytes());
        out.extend_from_slice(&offsets[i].to_le_bytes());
    }
    out.extend_from_slice(&area);
    out
}

// ------------------------------------------------------------------------- //
// Encoder of whole databases.

#[derive(Clone, Debug)]
pub struct EncPoolEntry {
    pub bytes: Vec<u8>,
    pub refcount: u16,
}

pub fn encode_pool(codepage_id: i32, long_refs: bool, entries: &[EncPoolEntry]) -> (Vec<u8>, Vec<u8>) {
    let mut pool = Vec::new();
    let mut data = Vec::new();
    let head = (codepage_id as u32 & 0x7fff_ffff) | if long_refs { 0x8000_0000 } else { 0 };
    pool.extend_from_slice(&head.to_le_bytes());
    for e in entries {
        let len = e.bytes.len();
        if len > 0xffff {
            pool.extend_from_slice(&0u16.to_le_bytes());
            pool.extend_from_slice(&((len >> 16) as u16).to_le_bytes());
            pool.extend_from_slice(&((len & 0xffff) as u16).to_le_bytes());
            pool.extend_from_slice(&e.refcount.to_le_bytes());
        } else {
            pool.extend_from_slice(&(len as u16).to_le_bytes());
            pool.extend_from_slice(&e.refcount.to_le_bytes());
        }
        data.extend_from_slice(&e.bytes);
    }
    (pool, data)
}

pub fn encode_table(rows: &[Vec<Cell>], type_words: &[i32], long_refs: bool) -> Vec<u8> {
    let mut out = Vec::new();
    for (ci, t) in type_words.iter().enumerate() {
        for r in rows {
            match storage_of(*t).expect("valid type word") {
                Storage::I16 => {
                    let raw: u16 = match r[ci] {
                        Cell::Null => 0,
                        Cell::Int(i) => (i as i16 as u16) ^ 0x8000,
                        Cell::Ref(x) => x as u16,
                    };
                    out.extend_from_slice(&raw.to_le_bytes());
                }
                Storage::I32 => {
                    let raw: u32 = match r[ci] {
                        Cell::Null => 0,
                        Cell::Int(i) => (i as u32) ^ 0x8000_0000,
                        Cell::Ref(x) => x,
                    };
                    out.extend_from_slice(&raw.to_le_bytes());
                }
                Storage::Str => {
                    let raw: u32 = match r[ci] {
                        Cell::Null => 0,
                        Cell::Ref(x) => x,
                        Cell::Int(i) => i as u32,
                    };
                    out.extend_from_slice(&(raw as u16).to_le_bytes());
                    if long_refs {
                        out.push((raw >> 16) as u8);
                    }
                }
            }
        }
    }
    out
}

/// Writes a compound file with the given root CLSID and raw (container-name,
/// bytes) streams.
pub fn write_container(clsid: uuid::Uuid, streams: &[(String, Vec<u8>)]) -> Result<Vec<u8>, String> {
    let mut comp = cfb::CompoundFile::create(Cursor::new(Vec::new())).map_err(|e| e.to_string())?;
    comp.set_storage_clsid("/", clsid).map_err(|e| e.to_string())?;
    for (name, bytes) in streams {
        let mut s = comp.create_stream(format!("/{}", name)).map_err(|e| format!("create {name:?}: {e}"))?;
        s.write_all(bytes).map_err(|e| e.to_string())?;
        s.flush().map_err(|e| e.to_string())?;
    }
    comp.flush().map_err(|e| e.to_string())?;
    Ok(comp.into_inner().into_inner())
}

#[cfg(test)]
mod tests {
    use super::*;

    #[test]
    fn names_match_the_format_description() {
        // fixtures from the Wine notes: "_Columns", "_Tables", "App.exe"
        assert_eq!(encode_name("_Columns", true), "\u{4840}\u{3b3f}\u{43f2}\u{4438}\u{45b1}");
        assert_eq!(encode_name("_Tables", true), "\u{4840}\u{3f7f}\u{4164}\u{422f}\u{4836}");
        assert_eq!(decode_name("\u{44ca}\u{47b3}\u{46e8}\u{4828}"), ("App.exe".to_string(), false));
    }

    #[test]
    fn pool_round_trip() {
        let entries = vec![
            EncPoolEntry { bytes: b"abc".to_vec(), refcount: 2 },
            EncPoolEntry { bytes: vec![], refcount: 0 },
            EncPoolEntry { bytes: vec![b'x'; 70000], refcount: 1 },
        ];
        let (p, d) = encode_pool(1252, true, &entries);
        let pool = decode_pool(&p, &d).unwrap();
        assert!(pool.long_refs);
        assert_eq!(pool.codepage_id, 1252);
        assert_eq!(pool.entries.len(), 3);
        assert_eq!(pool.entries[2].bytes.len(), 70000);
        assert_eq!(pool.entries[0].refcount, 2);
    }

    #[test]
    fn table_round_trip() {
        let words = [T_STRING | T_KEY | 8, 2 | T_NULLABLE, 4];
        let rows = vec![vec![Cell::Ref(0x12345), Cell::Int(-32767), Cell::Int(i32::MAX)], vec![Cell::Ref(1), Cell::Null, Cell::Int(-i32::MAX)]];
        let b = encode_table(&rows, &words, true);
        assert_eq!(decode_table(&b, &words, true).unwrap(), rows);
        // int16 value 0x123 is stored as 23 81
        let b = encode_table(&[vec![Cell::Int(0x123)]], &[2], false);
        assert_eq!(b, vec![0x23, 0x81]);
    }

    #[test]
    fn propset_round_trip() {
        let props = vec![(1u32, PVal::I2(1252)), (2, PVal::LpStr(b"abc".to_vec())), (12, PVal::FileTime(5)), (15, PVal::I4(-2))];
        let b = encode_propset(&props, &PropLayout::default());
        let p = parse_propset(&b, true).unwrap();
        assert_eq!(p.props.iter().map(|x| (x.0, x.2.clone())).collect::<Vec<_>>(), props);
        let layout = PropLayout { version: 1, header_gap: 12, gaps: vec![4, 0, 8, 0], value_order: vec![3, 1, 0, 2], trailing: 4 };
        let b = encode_propset(&props, &layout);
        let p = parse_propset(&b, false).unwrap();
        assert_eq!(p.get(2), Some(&PVal::LpStr(b"abc".to_vec())));
        assert!(parse_propset(&b, true).is_err());
    }
}
