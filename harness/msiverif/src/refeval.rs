//! The harness's own expression AST, the reference evaluator (C13 oracle),
//! the constructor into `msi::Expr`, and the precedence-climbing reader of
//! printed expressions (C19 oracle).  Shares no code with the library.

use serde::{Deserialize, Serialize};
use std::collections::BTreeSet;

/// A cell / expression value in the harness's own representation.
#[derive(Clone, Debug, PartialEq, Eq, Hash, PartialOrd, Ord, Serialize, Deserialize)]
pub enum V {
    Null,
    Int(i32),
    Str(String),
}

impl V {
    pub fn from_msi(v: &msi::Value) -> V {
        match v {
            msi::Value::Null => V::Null,
            msi::Value::Int(i) => V::Int(*i),
            msi::Value::Str(s) => V::Str(s.clone()),
        }
    }
    pub fn to_msi(&self) -> msi::Value {
        match self {
            V::Null => msi::Value::Null,
            V::Int(i) => msi::Value::Int(*i),
            V::Str(s) => msi::Value::Str(s.clone()),
        }
    }
    /// Documented truthiness: null, zero and the empty string are false.
    pub fn truthy(&self) -> bool {
        match self {
            V::Null => false,
            V::Int(i) => *i != 0,
            V::Str(s) => !s.is_empty(),
        }
    }
    /// Canonical form modulo the file format's `"" == null`.
    pub fn canon(&self) -> V {
        match self {
            V::Str(s) if s.is_empty() => V::Null,
            v => v.clone(),
        }
    }
    pub fn kind(&self) -> u8 {
        match self {
            V::Null => 0,
            V::Int(_) => 1,
            V::Str(_) => 2,
        }
    }
}

#[derive(Clone, Copy, Debug, PartialEq, Eq, Hash, PartialOrd, Ord, Serialize, Deserialize)]
pub enum Un {
    Neg,
    BitNot,
    Not,
}

#[derive(Clone, Copy, Debug, PartialEq, Eq, Hash, PartialOrd, Ord, Serialize, Deserialize)]
pub enum Bin {
    Or,
    And,
    Eq,
    Ne,
    Lt,
    Le,
    Gt,
    Ge,
    BitOr,
    BitXor,
    BitAnd,
    Shl,
    Shr,
    Add,
    Sub,
    Mul,
    Div,
}

pub const ALL_UN: [Un; 3] = [Un::Neg, Un::BitNot, Un::Not];
pub const ALL_BIN: [Bin; 17] = [
    Bin::Or, Bin::And, Bin::Eq, Bin::Ne, Bin::Lt, Bin::Le, Bin::Gt, Bin::Ge, Bin::BitOr,
    Bin::BitXor, Bin::BitAnd, Bin::Shl, Bin::Shr, Bin::Add, Bin::Sub, Bin::Mul, Bin::Div,
];

impl Bin {
    /// Precedence level in the ladder of the property (higher binds tighter):
    /// OR 1 < AND 2 < NOT 3 < comparison 4 < | 5 < ^ 6 < & 7 < shifts 8 < + - 9 < * / 10 < unary 11.
    pub fn level(self) -> u8 {
        match self {
            Bin::Or => 1,
            Bin::And => 2,
            Bin::Eq | Bin::Ne | Bin::Lt | Bin::Le | Bin::Gt | Bin::Ge => 4,
            Bin::BitOr => 5,
            Bin::BitXor => 6,
            Bin::BitAnd => 7,
            Bin::Shl | Bin::Shr => 8,
            Bin::Add | Bin::Sub => 9,
            Bin::Mul | Bin::Div => 10,
        }
    }
    pub fn is_cmp(self) -> bool {
        self.level() == 4
    }
    pub fn sym(self) -> &'static str {
        match self {
            Bin::Or => "OR",
            Bin::And => "AND",
            Bin::Eq => "=",
            Bin::Ne => "!=",
            Bin::Lt => "<",
            Bin::Le => "<=",
            Bin::Gt => ">",
            Bin::Ge => ">=",
            Bin::BitOr => "|",
            Bin::BitXor => "^",
            Bin::BitAnd => "&",
            Bin::Shl => "<<",
            Bin::Shr => ">>",
            Bin::Add => "+",
            Bin::Sub => "-",
            Bin::Mul => "*",
            Bin::Div => "/",
        }
    }
}

impl Un {
    pub fn level(self) -> u8 {
        match self {
            Un::Not => 3,
            Un::Neg | Un::BitNot => 11,
        }
    }
}

#[derive(Clone, Debug, PartialEq, Eq, Hash, PartialOrd, Ord, Serialize, Deserialize)]
pub enum E {
    Lit(V),
    Col(String),
    Un(Un, Box<E>),
    Bin(Bin, Box<E>, Box<E>),
}

impl E {
    pub fn un(op: Un, a: E) -> E {
        E::Un(op, Box::new(a))
    }
    pub fn bin(op: Bin, a: E, b: E) -> E {
        E::Bin(op, Box::new(a), Box::new(b))
    }
    pub fn depth(&self) -> usize {
        match self {
            E::Lit(_) | E::Col(_) => 0,
            E::Un(_, a) => 1 + a.depth(),
            E::Bin(_, a, b) => 1 + a.depth().max(b.depth()),
        }
    }
    pub fn columns(&self, out: &mut Vec<String>) {
        match self {
            E::Lit(_) => {}
            E::Col(c) => out.push(c.clone()),
            E::Un(_, a) => a.columns(out),
            E::Bin(_, a, b) => {
                a.columns(out);
                b.columns(out);
            }
        }
    }
    pub fn literals(&self, out: &mut Vec<V>) {
        match self {
            E::Lit(v) => out.push(v.clone()),
            E::Col(_) => {}
            E::Un(_, a) => a.literals(out),
            E::Bin(_, a, b) => {
                a.literals(out);
                b.literals(out);
            }
        }
    }
    pub fn has_column(&self) -> bool {
        let mut c = Vec::new();
        self.columns(&mut c);
        !c.is_empty()
    }
    /// Fully parenthesised rendering (for samples and messages).
    pub fn show(&self) -> String {
        match self {
            E::Lit(V::Null) => "NULL".into(),
            E::Lit(V::Int(i)) => i.to_string(),
            E::Lit(V::Str(s)) => format!("{:?}", s),
            E::Col(c) => c.clone(),
            E::Un(Un::Neg, a) => format!("-({})", a.show()),
            E::Un(Un::BitNot, a) => format!("~({})", a.show()),
            E::Un(Un::Not, a) => format!("NOT ({})", a.show()),
            E::Bin(op, a, b) => format!("({} {} {})", a.show(), op.sym(), b.show()),
        }
    }
}

/// Builds the library expression for a harness tree (the same tree can be
/// built any number of times; `msi::Expr` is not `Clone`).
pub fn build(e: &E) -> msi::Expr {
    use msi::Expr as X;
    match e {
        E::Lit(V::Null) => X::null(),
        E::Lit(V::Int(i)) => X::integer(*i),
        E::Lit(V::Str(s)) => X::string(s.as_str()),
        E::Col(c) => X::col(c.as_str()),
        E::Un(Un::Neg, a) => -build(a),
        E::Un(Un::BitNot, a) => build(a).bitinv(),
        E::Un(Un::Not, a) => build(a).not(),
        E::Bin(op, a, b) => {
            let (a, b) = (build(a), build(b));
            match op {
                Bin::Or => a.or(b),
                Bin::And => a.and(b),
                Bin::Eq => a.eq(b),
                Bin::Ne => a.ne(b),
                Bin::Lt => a.lt(b),
                Bin::Le => a.le(b),
                Bin::Gt => a.gt(b),
                Bin::Ge => a.ge(b),
                Bin::BitOr => a | b,
                Bin::BitXor => a ^ b,
                Bin::BitAnd => a & b,
                Bin::Shl => a << b,
                Bin::Shr => a >> b,
                Bin::Add => a + b,
                Bin::Sub => a - b,
                Bin::Mul => a * b,
                Bin::Div => a / b,
            }
        }
    }
}

// ------------------------------------------------------------------------- //
// Reference evaluation.  The result is the *set of accepted values*: a
// singleton wherever the documentation fixes the answer, several values where
// it leaves a choice (overflow: wrapped value or null; out-of-range shift
// count; cross-type comparison: 0 or 1).

pub type Acc = BTreeSet<V>;

fn one(v: V) -> Acc {
    let mut s = BTreeSet::new();
    s.insert(v);
    s
}

fn b01(b: bool) -> V {
    V::Int(if b { 1 } else { 0 })
}

pub fn un_ref(op: Un, a: &V) -> Acc {
    match op {
        Un::Not => one(b01(!a.truthy())),
        Un::BitNot => match a {
            V::Int(i) => one(V::Int(!*i)),
            _ => one(V::Null),
        },
        Un::Neg => match a {
            V::Int(i) => match i.checked_neg() {
                Some(n) => one(V::Int(n)),
                None => [V::Int(i32::MIN), V::Null].into_iter().collect(),
            },
            _ => one(V::Null),
        },
    }
}

fn cmp_same(op: Bin, o: std::cmp::Ordering) -> bool {
    use std::cmp::Ordering::*;
    match op {
        Bin::Eq => o == Equal,
        Bin::Ne => o != Equal,
        Bin::Lt => o == Less,
        Bin::Le => o != Greater,
        Bin::Gt => o == Greater,
        Bin::Ge => o != Less,
        _ => unreachable!(),
    }
}

pub fn bin_ref(op: Bin, a: &V, b: &V) -> Acc {
    match op {
        Bin::And => one(b01(a.truthy() && b.truthy())),
        Bin::Or => one(b01(a.truthy() || b.truthy())),
        Bin::Eq | Bin::Ne | Bin::Lt | Bin::Le | Bin::Gt | Bin::Ge => match (a, b) {
            (V::Null, V::Null) => one(b01(cmp_same(op, std::cmp::Ordering::Equal))),
            (V::Int(x), V::Int(y)) => one(b01(cmp_same(op, x.cmp(y)))),
            (V::Str(x), V::Str(y)) => one(b01(cmp_same(op, x.as_str().cmp(y.as_str())))),
            // null and the empty string are one value in the file format:
            // whether they compare equal is left open
            _ if a.canon() == b.canon() => [V::Int(0), V::Int(1)].into_iter().collect(),
            // different types are never equal; their order is unspecified
            _ => match op {
                Bin::Eq => one(b01(false)),
                Bin::Ne => one(b01(true)),
                _ => [V::Int(0), V::Int(1)].into_iter().collect(),
            },
        },
        Bin::Add => match (a, b) {
            (V::Int(x), V::Int(y)) => arith(x.checked_add(*y), x.wrapping_add(*y)),
            (V::Str(x), V::Str(y)) => one(V::Str(format!("{x}{y}"))),
            _ => one(V::Null),
        },
        Bin::Sub => match (a, b) {
            (V::Int(x), V::Int(y)) => arith(x.checked_sub(*y), x.wrapping_sub(*y)),
            _ => one(V::Null),
        },
        Bin::Mul => match (a, b) {
            (V::Int(x), V::Int(y)) => arith(x.checked_mul(*y), x.wrapping_mul(*y)),
            _ => one(V::Null),
        },
        Bin::Div => match (a, b) {
            (_, V::Int(0)) => one(V::Null),
            (V::Int(x), V::Int(y)) => arith(x.checked_div(*y), x.wrapping_div(*y)),
            _ => one(V::Null),
        },
        Bin::BitAnd => match (a, b) {
            (V::Int(x), V::Int(y)) => one(V::Int(x & y)),
            _ => one(V::Null),
        },
        Bin::BitOr => match (a, b) {
            (V::Int(x), V::Int(y)) => one(V::Int(x | y)),
            _ => one(V::Null),
        },
        Bin::BitXor => match (a, b) {
            (V::Int(x), V::Int(y)) => one(V::Int(x ^ y)),
            _ => one(V::Null),
        },
        Bin::Shl | Bin::Shr => match (a, b) {
            (V::Int(x), V::Int(n)) => {
                let left = op == Bin::Shl;
                if (0..32).contains(n) {
                    one(V::Int(if left { x.wrapping_shl(*n as u32) } else { x.wrapping_shr(*n as u32) }))
                } else {
                    let masked = (*n as u32) & 31;
                    let mut s = BTreeSet::new();
                    s.insert(V::Null);
                    s.insert(V::Int(if left { x.wrapping_shl(masked) } else { x.wrapping_shr(masked) }));
                    // mathematically saturated result
                    s.insert(V::Int(if left { 0 } else if *x < 0 { -1 } else { 0 }));
                    s
                }
            }
            _ => one(V::Null),
        },
    }
}

fn arith(checked: Option<i32>, wrapped: i32) -> Acc {
    match checked {
        Some(v) => one(V::Int(v)),
        None => [V::Int(wrapped), V::Null].into_iter().collect(),
    }
}

/// Evaluates `e` with `lookup` giving column values.  `None` from `lookup`
/// means the column does not exist (callers never evaluate such trees).
pub fn eval_ref(e: &E, lookup: &dyn Fn(&str) -> V) -> Acc {
    match e {
        E::Lit(v) => one(v.clone()),
        E::Col(c) => one(lookup(c)),
        E::Un(op, a) => {
            let mut out = BTreeSet::new();
            for av in eval_ref(a, lookup) {
                out.extend(un_ref(*op, &av));
            }
            out
        }
        E::Bin(op, a, b) => {
            let accs_a = eval_ref(a, lookup);
            let accs_b = eval_ref(b, lookup);
            let mut out = BTreeSet::new();
            for av in &accs_a {
                for bv in &accs_b {
                    out.extend(bin_ref(*op, av, bv));
                }
            }
            out
        }
    }
}

/// True when the tree touches an edge whose result the documentation leaves
/// open, or an error case (used for the non-triviality rule).
pub fn is_edgy(e: &E, lookup: &dyn Fn(&str) -> V) -> bool {
    match e {
        E::Lit(_) | E::Col(_) => false,
        E::Un(op, a) => {
            if is_edgy(a, lookup) {
                return true;
            }
            eval_ref(a, lookup).iter().any(|av| match op {
                Un::Not => false,
                Un::Neg => !matches!(av, V::Int(i) if *i != i32::MIN),
                Un::BitNot => !matches!(av, V::Int(_)),
            })
        }
        E::Bin(op, a, b) => {
            if is_edgy(a, lookup) || is_edgy(b, lookup) {
                return true;
            }
            let aa = eval_ref(a, lookup);
            let bb = eval_ref(b, lookup);
            aa.iter().any(|av| {
                bb.iter().any(|bv| match op {
                    Bin::And | Bin::Or => false,
                    o if o.is_cmp() => av.kind() != bv.kind(),
                    Bin::Add if av.kind() == 2 && bv.kind() == 2 => false,
                    _ => {
                        let r = bin_ref(*op, av, bv);
                        r.len() > 1 || r.contains(&V::Null)
                    }
                })
            })
        }
    }
}

// ------------------------------------------------------------------------- //
// Reader of printed expressions (precedence climbing over the ladder of C19).

#[derive(Clone, Debug, PartialEq)]
pub enum Tok {
    Ident(String),
    Int(i64),
    Str(String),
    Op(&'static str),
    LParen,
    RParen,
    Comma,
    Star,
    Kw(&'static str),
}

const KEYWORDS: &[&str] = &[
    "AND", "DELETE", "FALSE", "FROM", "INNER", "INSERT", "INTO", "JOIN", "LEFT", "NOT", "NULL",
    "ON", "OR", "SELECT", "SET", "TRUE", "UPDATE", "VALUES", "WHERE",
];

pub fn lex(text: &str) -> Result<Vec<Tok>, String> {
    let cs: Vec<char> = text.chars().collect();
    let mut i = 0;
    let mut out = Vec::new();
    while i < cs.len() {
        let c = cs[i];
        if c == ' ' {
            i += 1;
        } else if c.is_ascii_alphabetic() || c == '_' {
            let mut j = i;
            while j < cs.len() && (cs[j].is_ascii_alphanumeric() || cs[j] == '_' || cs[j] == '.') {
                j += 1;
            }
            let w: String = cs[i..j].iter().collect();
            if let Some(k) = KEYWORDS.iter().find(|k| k.eq_ignore_ascii_case(&w)) {
                out.push(Tok::Kw(k));
            } else {
                out.push(Tok::Ident(w));
            }
            i = j;
        } else if c.is_ascii_digit() {
            let mut j = i;
            while j < cs.len() && cs[j].is_ascii_digit() {
                j += 1;
            }
            let w: String = cs[i..j].iter().collect();
            out.push(Tok::Int(w.parse::<i64>().map_err(|e| e.to_string())?));
            i = j;
        } else if c == '"' || c == '\'' {
            let mut j = i + 1;
            let mut s = String::new();
            loop {
                if j >= cs.len() {
                    return Err("unterminated string".into());
                }
                if cs[j] == c {
                    break;
                }
                if cs[j] == '\\' {
                    return Err("escape in string literal (outside the property's domain)".into());
                }
                s.push(cs[j]);
                j += 1;
            }
            out.push(Tok::Str(s));
            i = j + 1;
        } else {
            let two: String = cs[i..(i + 2).min(cs.len())].iter().collect();
            let op2 = ["<=", ">=", "!=", "<<", ">>"].iter().find(|o| **o == two);
            if let Some(o) = op2 {
                out.push(Tok::Op(o));
                i += 2;
            } else {
                let t = match c {
                    '(' => Tok::LParen,
                    ')' => Tok::RParen,
                    ',' => Tok::Comma,
                    '*' => Tok::Star,
                    '=' => Tok::Op("="),
                    '<' => Tok::Op("<"),
                    '>' => Tok::Op(">"),
                    '+' => Tok::Op("+"),
                    '-' => Tok::Op("-"),
                    '/' => Tok::Op("/"),
                    '&' => Tok::Op("&"),
                    '|' => Tok::Op("|"),
                    '^' => Tok::Op("^"),
                    '~' => Tok::Op("~"),
                    _ => return Err(format!("unexpected character {c:?}")),
                };
                out.push(t);
                i += 1;
            }
        }
    }
    Ok(out)
}

pub struct Reader<'a> {
    pub toks: &'a [Tok],
    pub pos: usize,
}

impl<'a> Reader<'a> {
    pub fn new(toks: &'a [Tok]) -> Reader<'a> {
        Reader { toks, pos: 0 }
    }
    pub fn peek(&self) -> Option<&Tok> {
        self.toks.get(self.pos)
    }
    pub fn next(&mut self) -> Option<Tok> {
        let t = self.toks.get(self.pos).cloned();
        self.pos += 1;
        t
    }
    pub fn at_end(&self) -> bool {
        self.pos >= self.toks.len()
    }
    fn eat_op(&mut self, ops: &[&'static str]) -> Option<&'static str> {
        match self.peek() {
            Some(Tok::Op(o)) if ops.contains(o) => {
                let o = *o;
                self.pos += 1;
                Some(o)
            }
            Some(Tok::Star) if ops.contains(&"*") => {
                self.pos += 1;
                Some("*")
            }
            _ => None,
        }
    }
    fn eat_kw(&mut self, kw: &str) -> bool {
        match self.peek() {
            Some(Tok::Kw(k)) if *k == kw => {
                self.pos += 1;
                true
            }
            _ => false,
        }
    }

    pub fn expr(&mut self) -> Result<E, String> {
        self.level(1)
    }

    /// Levels: 1 OR, 2 AND, 3 NOT, 4 comparison, 5 |, 6 ^, 7 &, 8 shifts,
    /// 9 + -, 10 * /, 11 unary, 12 atom.
    fn level(&mut self, lvl: u8) -> Result<E, String> {
        match lvl {
            1 => {
                let mut lhs = self.level(2)?;
                while self.eat_kw("OR") {
                    let rhs = self.level(2)?;
                    lhs = E::bin(Bin::Or, lhs, rhs);
                }
                Ok(lhs)
            }
            2 => {
                let mut lhs = self.level(3)?;
                while self.eat_kw("AND") {
                    let rhs = self.level(3)?;
                    lhs = E::bin(Bin::And, lhs, rhs);
                }
                Ok(lhs)
            }
            3 => {
                if self.eat_kw("NOT") {
                    let a = self.level(3)?;
                    Ok(E::un(Un::Not, a))
                } else {
                    self.level(4)
                }
            }
            4 => self.binary_level(4, &[("<=", Bin::Le), (">=", Bin::Ge), ("!=", Bin::Ne), ("=", Bin::Eq), ("<", Bin::Lt), (">", Bin::Gt)]),
            5 => self.binary_level(5, &[("|", Bin::BitOr)]),
            6 => self.binary_level(6, &[("^", Bin::BitXor)]),
            7 => self.binary_level(7, &[("&", Bin::BitAnd)]),
            8 => self.binary_level(8, &[("<<", Bin::Shl), (">>", Bin::Shr)]),
            9 => self.binary_level(9, &[("+", Bin::Add), ("-", Bin::Sub)]),
            10 => self.binary_level(10, &[("*", Bin::Mul), ("/", Bin::Div)]),
            11 => {
                if self.eat_op(&["-"]).is_some() {
                    // a minus sign directly followed by digits is a negative literal
                    if let Some(Tok::Int(n)) = self.peek() {
                        let n = -*n;
                        if n >= i32::MIN as i64 {
                            self.pos += 1;
                            return Ok(E::Lit(V::Int(n as i32)));
                        }
                    }
                    let a = self.level(11)?;
                    Ok(E::un(Un::Neg, a))
                } else if self.eat_op(&["~"]).is_some() {
                    let a = self.level(11)?;
                    Ok(E::un(Un::BitNot, a))
                } else if self.eat_kw("NOT") {
                    // lenient: a NOT in operand position is read as a prefix
                    // operator taking everything down to comparison level
                    let a = self.level(3)?;
                    Ok(E::un(Un::Not, a))
                } else {
                    self.level(12)
                }
            }
            _ => match self.next() {
                Some(Tok::Kw("NULL")) => Ok(E::Lit(V::Null)),
                Some(Tok::Kw("TRUE")) => Ok(E::Lit(V::Int(1))),
                Some(Tok::Kw("FALSE")) => Ok(E::Lit(V::Int(0))),
                Some(Tok::Int(n)) => {
                    if n > i32::MAX as i64 {
                        Err(format!("integer literal {n} out of range"))
                    } else {
                        Ok(E::Lit(V::Int(n as i32)))
                    }
                }
                Some(Tok::Str(s)) => Ok(E::Lit(V::Str(s))),
                Some(Tok::Ident(c)) => Ok(E::Col(c)),
                Some(Tok::LParen) => {
                    let e = self.expr()?;
                    match self.next() {
                        Some(Tok::RParen) => Ok(e),
                        t => Err(format!("expected ')', found {t:?}")),
                    }
                }
                t => Err(format!("unexpected token {t:?}")),
            },
        }
    }

    fn binary_level(&mut self, lvl: u8, ops: &[(&'static str, Bin)]) -> Result<E, String> {
        let names: Vec<&'static str> = ops.iter().map(|o| o.0).collect();
        let mut lhs = self.level(lvl + 1)?;
        while let Some(o) = self.eat_op(&names) {
            let op = ops.iter().find(|x| x.0 == o).unwrap().1;
            let rhs = self.level(lvl + 1)?;
            lhs = E::bin(op, lhs, rhs);
        }
        Ok(lhs)
    }
}

pub fn read_expr(text: &str) -> Result<E, String> {
    let toks = lex(text)?;
    let mut r = Reader::new(&toks);
    let e = r.expr()?;
    if !r.at_end() {
        return Err(format!("trailing tokens after expression: {:?}", &toks[r.pos..]));
    }
    Ok(e)
}

/// The expression the library actually holds for a harness tree: the library
/// folds an operator whose operands are all literals at construction time
/// (AND / OR are never folded).  Used to compare literal multisets.
pub fn folded_shape(e: &E) -> Option<E> {
    match e {
        E::Lit(_) | E::Col(_) => Some(e.clone()),
        E::Un(op, a) => {
            let a = folded_shape(a)?;
            if let E::Lit(v) = &a {
                let acc = un_ref(*op, v);
                if acc.len() == 1 {
                    return Some(E::Lit(acc.into_iter().next().unwrap()));
                }
                return None; // unspecified folded value
            }
            Some(E::un(*op, a))
        }
        E::Bin(op, a, b) => {
            let a = folded_shape(a)?;
            let b = folded_shape(b)?;
            if !matches!(op, Bin::And | Bin::Or) {
                if let (E::Lit(x), E::Lit(y)) = (&a, &b) {
                    let acc = bin_ref(*op, x, y);
                    if acc.len() == 1 {
                        return Some(E::Lit(acc.into_iter().next().unwrap()));
                    }
                    return None;
                }
            }
            Some(E::bin(*op, a, b))
        }
    }
}
