//! E-seq: model-based operation sequences.  A sequence is a list of
//! late-bound `OpSeed`s; the interpreter resolves each against the state that
//! exists at that point, applies it to the real package and to the reference
//! model, and exposes the observations the property oracles need.

use crate::cpref::{self, Page};
use crate::engine::Fail;
use crate::media::SharedBuf;
use crate::model::{canon_row, key_of, Cat, ColDef, MSummary, MTable, Row, Ty};
use crate::observe::{observe, observe_summary, ptype_of, Snapshot};
use crate::refeval::{build, eval_ref, Bin, Un, E, V};
use msi::{Delete, Insert, Language, Package, Select, Update};
use proptest::prelude::*;
use serde::{Deserialize, Serialize};
use std::collections::BTreeMap;
use std::io::Write;
use std::time::{Duration, UNIX_EPOCH};

// ------------------------------------------------------------------------- //
// Seeds.

#[derive(Clone, Debug, Serialize, Deserialize, Hash, PartialEq, Eq)]
pub struct ValSeed {
    pub class: u8,
    pub int_sel: i32,
    pub str_sel: u16,
}

#[derive(Clone, Debug, Serialize, Deserialize, Hash, PartialEq, Eq)]
pub struct ColSeed {
    pub ty: u8,
    pub width: u8,
    pub nullable: bool,
    pub key: bool,
    pub localizable: bool,
    pub range: u8,
    pub cat: u8,
    pub enums: u8,
}

#[derive(Clone, Debug, Serialize, Deserialize, Hash, PartialEq, Eq)]
pub struct CondSeed {
    pub kind: u8,
    pub col: u16,
    pub val: ValSeed,
    pub col2: u16,
    pub val2: ValSeed,
}

#[derive(Clone, Debug, Serialize, Deserialize, Hash, PartialEq, Eq)]
pub enum OpSeed {
    CreateTable { name: u16, cols: Vec<ColSeed> },
    DropTable { t: u16 },
    Insert { t: u16, rows: Vec<Vec<ValSeed>> },
    Update { t: u16, sets: Vec<(u16, ValSeed)>, cond: CondSeed },
    Delete { t: u16, cond: CondSeed },
    Select { t: u16, cols: Vec<u16>, cond: CondSeed },
    WriteStream { name: u16, len: u16, fill: u8 },
    RemoveStream { s: u16 },
    Summary { prop: u8, clear: bool, val: ValSeed },
    SummaryCodepage(u16),
    DbCodepage(u16),
    Flush,
    Reopen(u8),
}

impl OpSeed {
    pub fn kind(&self) -> &'static str {
        match self {
            OpSeed::CreateTable { .. } => "CreateTable",
            OpSeed::DropTable { .. } => "DropTable",
            OpSeed::Insert { .. } => "Insert",
            OpSeed::Update { .. } => "Update",
            OpSeed::Delete { .. } => "Delete",
            OpSeed::Select { .. } => "Select",
            OpSeed::WriteStream { .. } => "WriteStream",
            OpSeed::RemoveStream { .. } => "RemoveStream",
            OpSeed::Summary { .. } => "Summary",
            OpSeed::SummaryCodepage(_) => "SummaryCodepage",
            OpSeed::DbCodepage(_) => "DbCodepage",
            OpSeed::Flush => "Flush",
            OpSeed::Reopen(_) => "Reopen",
        }
    }
}

/// Monotone index mapping (never `%`, so shrinking a selector moves towards
/// the first element).
pub fn pick(sel: u16, len: usize) -> usize {
    if len == 0 {
        0
    } else {
        ((sel as usize) * len) >> 16
    }
}

#[derive(Clone, Copy, Debug, PartialEq, Eq, Serialize, Deserialize, Hash)]
pub enum CloseMode {
    /// flush, copy the medium while the package is alive (= crash right after
    /// a successful flush), then drop the package
    FlushAndCopy,
    IntoInner,
    Drop,
}

pub fn close_mode(sel: u8) -> CloseMode {
    match sel % 3 {
        0 => CloseMode::FlushAndCopy,
        1 => CloseMode::IntoInner,
        _ => CloseMode::Drop,
    }
}

// ------------------------------------------------------------------------- //
// Profiles.

#[derive(Clone, Debug)]
pub struct Profile {
    pub name: &'static str,
    /// generate "" cells and keys
    pub allow_empty: bool,
    /// updates may assign primary-key columns
    pub allow_key_update: bool,
    /// strings beyond 64 KiB (rare class)
    pub allow_long: bool,
    /// code-page switching (database and summary)
    pub codepages: bool,
    /// non-ASCII strings from the current page's repertoire
    pub non_ascii: bool,
    /// now and then offer a row with one value that is invalid for its column
    /// (out of the storage type but inside a wide declared range, too long,
    /// outside the enumeration): the library must refuse it
    pub try_invalid: bool,
}

pub const PLAIN: Profile = Profile { name: "plain", allow_empty: true, allow_key_update: false, allow_long: false, codepages: true, non_ascii: true, try_invalid: false };

pub const TABLE_NAMES: [&str; 8] = ["A", "Tbl", "T1", "Tbl.x", "_u", "Feature", "Long_Table.Name_0123456789", "z9"];
/// (`Tbl` + `x.k` and `Tbl.x` + `k` spell the same dotted path; `k` / `K` and
/// `a` / `A` differ only in case: names are case-sensitive.)
pub const COLUMN_NAMES: [&str; 8] = ["k", "a", "x.k", "Name", "K", "c.d", "_e", "A"];
pub const STREAM_NAMES: [&str; 8] = ["Binary.a", "Icon.App.ico", "s1", "data_2", "Z", "Cab.1", "A", "T1"];
pub const ASCII_STRINGS: [&str; 14] = ["", "a", "b", "ab", "A", "Name", "x y", "Value_1", "A", "0", "-1", "The quick brown fox", "k", "T1"];
pub const INT_BOUNDS: [i32; 19] = [0, 1, -1, 2, 31, 32, 127, 128, 255, 256, 32766, 32767, -32767, -32768, 32768, 65535, 65536, i32::MAX, -i32::MAX];
pub const LONG_LENGTHS: [usize; 6] = [65534, 65535, 65536, 65537, 70000, 131072];

fn cat_samples(cat: Cat) -> &'static [&'static str] {
    match cat.name() {
        "Identifier" => &["A", "b1", "_x.y", "Ident_2"],
        "Property" => &["A", "%Env", "Prop.1"],
        "GUID" => &["{34AB5C53-9B30-4E14-AEF0-2C1C7BA826C0}", "{00000000-0000-0000-0000-000000000000}"],
        "Version" => &["1", "1.2.3.4", "65535.0"],
        "Language" => &["1033", "1033,1036", "0"],
        "Cabinet" => &["a.cab", "#Stream1", "data"],
        "Integer" => &["0", "-5", "32767"],
        "DoubleInteger" => &["2147483647", "-1", "7"],
        "UpperCase" => &["ABC", "X Y", "A1"],
        "LowerCase" => &["abc", "x y", "a1"],
        _ => &["text", "Some Text", "x"],
    }
}

// ------------------------------------------------------------------------- //
// Model of the whole package.

#[derive(Clone, Debug, PartialEq, Eq, Serialize, Deserialize)]
pub struct Model {
    pub ptype: u8,
    pub db_cp: i32,
    pub tables: BTreeMap<String, MTable>,
    pub streams: BTreeMap<String, Vec<u8>>,
    pub summary: MSummary,
}

pub const RESERVED: [&str; 3] = ["_Columns", "_Tables", "_Validation"];

impl Model {
    pub fn new(ptype: u8) -> Model {
        let title = ["Installation Database", "Patch", "Transform"][(ptype % 3) as usize];
        Model {
            ptype: ptype % 3,
            db_cp: 65001,
            tables: BTreeMap::new(),
            streams: BTreeMap::new(),
            summary: MSummary { codepage: 65001, title: Some(title.to_string()), ..MSummary::default() },
        }
    }

    /// What the API snapshot must look like (user tables only).
    pub fn expected(&self) -> Snapshot {
        Snapshot {
            ptype: self.ptype,
            db_cp: self.db_cp,
            tables: self.tables.iter().map(|(n, t)| (n.clone(), (t.cols.clone(), t.rows_in_order()))).collect(),
            streams: self.streams.clone(),
            summary: self.summary.clone(),
            signed: false,
        }
    }

    /// Every live string in user tables (for code-page switches).
    pub fn live_strings(&self) -> Vec<&str> {
        let mut out = Vec::new();
        for (name, t) in &self.tables {
            out.push(name.as_str());
            for c in &t.cols {
                out.push(c.name.as_str());
                for e in &c.enums {
                    out.push(e.as_str());
                }
            }
            for r in t.rows.values() {
                for v in r {
                    if let V::Str(s) = v {
                        out.push(s.as_str());
                    }
                }
            }
        }
        out
    }
}

/// Restricts an API snapshot to user tables (the three catalog tables are the
/// library's own bookkeeping) and canonicalises `"" == null`.
pub fn user_view(s: &Snapshot) -> Snapshot {
    let mut s = s.canon();
    for r in RESERVED {
        s.tables.remove(r);
    }
    s
}

// ------------------------------------------------------------------------- //
// The interpreter.

pub struct Run {
    pub pkg: Option<Package<SharedBuf>>,
    pub buf: SharedBuf,
    pub model: Model,
    pub prof: Profile,
    pub trace: Vec<String>,
    /// successful mutations since the package was created / opened
    pub dirty: u32,
    pub skipped: u32,
    pub classes: Vec<&'static str>,
}

#[derive(Debug)]
pub enum Outcome {
    /// the op was applied to package and model
    Applied,
    /// the op could not be resolved in this state (no table yet, ...)
    Skipped,
    /// a select: (rows returned by the library, expected per model row: Some(true) must be in, Some(false) must not, None either; projected expected rows)
    Selected,
    Reopened(CloseMode, Snapshot, Snapshot, Vec<u8>),
    /// the library accepted a row the reference says is invalid: model and
    /// package have diverged, the history ends here (C07 owns the verdict;
    /// C05 still checks its invariant on the resulting state)
    Diverged(String),
}

fn io_fail(p: &str, op: &str, what: &str, e: std::io::Error) -> Fail {
    Fail::new(format!("{p} unexpected-error op={op}"), format!("{what} failed: {e}"))
}

impl Run {
    pub fn create(p: &str, ptype: u8, prof: &Profile) -> Result<Run, Fail> {
        let buf = SharedBuf::new(Vec::new());
        let pkg = Package::create(ptype_of(ptype), buf.clone()).map_err(|e| io_fail(p, "Create", "Package::create", e))?;
        Ok(Run { pkg: Some(pkg), buf, model: Model::new(ptype), prof: prof.clone(), trace: vec![format!("create({})", ptype % 3)], dirty: 0, skipped: 0, classes: Vec::new() })
    }

    pub fn pkg(&mut self) -> &mut Package<SharedBuf> {
        self.pkg.as_mut().expect("package is open")
    }

    pub fn snapshot(&mut self, p: &str) -> Result<Snapshot, Fail> {
        observe(self.pkg()).map_err(|e| Fail::new(format!("{p} observer-inconsistent"), e))
    }

    pub fn trace_text(&self) -> String {
        self.trace.join("; ")
    }

    fn db_page(&self) -> &'static Page {
        cpref::page_by_id(self.model.db_cp).expect("model code page is known")
    }

    // -- value resolution ------------------------------------------------- //

    fn plain_string(&self, sel: u16, page: &Page) -> String {
        let n_ascii = ASCII_STRINGS.len();
        let use_page = self.prof.non_ascii && sel % 3 == 2;
        if use_page && sel % 11 == 5 {
            let boms = cpref::bom_lookalikes(page);
            if !boms.is_empty() {
                return boms[(sel as usize / 11) % boms.len()].clone();
            }
        }
        if use_page {
            let rep = cpref::repertoire(page);
            let non_ascii: Vec<char> = rep.into_iter().filter(|c| !c.is_ascii()).collect();
            if !non_ascii.is_empty() {
                let k = 1 + (sel as usize / 7) % 3;
                let mut s = String::new();
                for j in 0..k {
                    s.push(non_ascii[(sel as usize / 3 + j * 5) % non_ascii.len()]);
                }
                if sel % 2 == 0 {
                    s.push('a');
                }
                return s;
            }
        }
        let s = ASCII_STRINGS[pick(sel, n_ascii)];
        if s.is_empty() && !self.prof.allow_empty {
            "e".to_string()
        } else {
            s.to_string()
        }
    }

    /// A value valid for the column by construction.
    pub fn valid_value(&self, col: &ColDef, seed: &ValSeed) -> V {
        if col.nullable && seed.class % 8 == 7 {
            return V::Null;
        }
        match col.ty {
            Ty::I16 | Ty::I32 => {
                let (mut lo, mut hi) = if col.ty == Ty::I16 { (-32767i64, 32767i64) } else { (-2147483647i64, 2147483647i64) };
                if let Some((a, b)) = col.range {
                    lo = lo.max(a as i64);
                    hi = hi.min(b as i64);
                }
                if lo > hi {
                    return if col.nullable { V::Null } else { V::Int(lo as i32) };
                }
                let cands: Vec<i64> = INT_BOUNDS.iter().map(|x| *x as i64).filter(|x| *x >= lo && *x <= hi).collect();
                if seed.class % 4 != 3 && !cands.is_empty() {
                    V::Int(cands[(seed.int_sel.unsigned_abs() as usize) % cands.len()] as i32)
                } else {
                    let span = (hi - lo + 1) as i128;
                    V::Int((lo as i128 + (seed.int_sel as i128).rem_euclid(span)) as i32)
                }
            }
            Ty::Str(w) => {
                if !col.enums.is_empty() {
                    return V::Str(col.enums[pick(seed.str_sel, col.enums.len())].clone());
                }
                if let Some(cat) = col.category {
                    if Cat::with_grammar().contains(&cat) {
                        let opts: Vec<&str> = cat_samples(cat).iter().copied().filter(|s| w == 0 || s.chars().count() <= w).collect();
                        if opts.is_empty() {
                            return if col.nullable { V::Null } else { V::Str(String::new()) };
                        }
                        return V::Str(opts[pick(seed.str_sel, opts.len())].to_string());
                    }
                }
                if self.prof.allow_long && w == 0 && seed.class % 64 == 5 {
                    let len = LONG_LENGTHS[(seed.int_sel.unsigned_abs() as usize) % LONG_LENGTHS.len()];
                    let mut s = String::with_capacity(len);
                    let tag = format!("L{}:", seed.str_sel % 4);
                    s.push_str(&tag);
                    while s.len() < len {
                        s.push((b'a' + (s.len() % 26) as u8) as char);
                    }
                    return V::Str(s);
                }
                let mut s = self.plain_string(seed.str_sel, self.db_page());
                if w > 255 && seed.class % 2 == 1 {
                    // a value that uses most of an over-wide column
                    s = "w".repeat(w - (seed.int_sel.unsigned_abs() as usize % 40));
                }
                if w == 0 && seed.class % 32 == 9 && !s.is_empty() {
                    // a medium-long cell (1025..4024 characters): its encoded
                    // form crosses the block sizes readers and writers use
                    let target = 1025 + seed.int_sel.unsigned_abs() as usize % 3000;
                    let pattern = s.clone();
                    let per = pattern.chars().count();
                    let mut n = per;
                    while n < target {
                        s.push_str(&pattern);
                        n += per;
                    }
                }
                let s: String = if w > 0 { s.chars().take(w).collect() } else { s };
                if s.is_empty() && !self.prof.allow_empty {
                    V::Str("e".to_string())
                } else {
                    V::Str(s)
                }
            }
        }
    }

    fn resolve_cols(&self, seeds: &[ColSeed]) -> Vec<ColDef> {
        let mut cols = Vec::new();
        let n = seeds.len().clamp(1, COLUMN_NAMES.len());
        for (i, s) in seeds.iter().take(n).enumerate() {
            let ty = match s.ty % 4 {
                0 => Ty::I16,
                1 => Ty::I32,
                // (two widths beyond what the type word can hold: such a
                // definition has to be refused, or else behave as declared)
                _ => Ty::Str(match s.width % 32 {
                    31 => 300,
                    30 => 0x112c,
                    w => [0usize, 1, 3, 8, 64, 255][(w % 6) as usize],
                }),
            };
            let mut c = ColDef::new(COLUMN_NAMES[i], ty);
            c.key = i == 0 || s.key;
            c.nullable = s.nullable;
            c.localizable = s.localizable;
            match ty {
                Ty::Str(_) => {
                    c.category = match s.cat % 8 {
                        0..=2 => None,
                        3..=5 => Some(Cat::with_grammar()[(s.cat as usize / 8) % 10]),
                        _ => Some(Cat(s.cat % 26)),
                    };
                    if c.category.map(|cat| Cat::with_grammar().contains(&cat)).unwrap_or(false) {
                        // keep category-valid samples storable
                        c.ty = Ty::Str([0usize, 64, 255][(s.width % 3) as usize]);
                    }
                    if s.range % 16 == 13 {
                        // a declared range on a string column is legal (and meaningless)
                        c.range = Some((0, 100));
                    }
                    if s.enums % 8 == 7 && c.category.is_none() {
                        // (every second set has members with leading / trailing
                        // blanks and one with a blank inside: they are part of the value)
                        c.enums = if s.enums % 16 == 15 {
                            vec![" auto".to_string(), "on".to_string(), "off ".to_string(), "a b".to_string()]
                        } else {
                            vec!["Y".to_string(), "N".to_string(), "Maybe".to_string()]
                        };
                        c.ty = Ty::Str([0usize, 8, 64][(s.width % 3) as usize]);
                    }
                }
                _ => {
                    c.range = match s.range % 16 {
                        0..=8 => None,
                        9 | 10 => Some((0, 100)),
                        11 => Some((-5, 5)),
                        12 => Some((-32767, 32767)),
                        13 => Some((0, 100_000)),
                        14 => Some((-40_000, 40_000)),
                        _ => Some((-i32::MAX, i32::MAX)),
                    };
                }
            }
            cols.push(c);
        }
        cols
    }

    /// Resolves a condition seed against a table: an expression whose
    /// comparisons are between a column and a literal of the column's type.
    pub fn resolve_cond(&self, t: &MTable, seed: &CondSeed) -> Option<E> {
        let n = t.cols.len();
        let lit_for = |ci: usize, vs: &ValSeed| -> V {
            // prefer a value some existing row holds, so that conditions match
            let rows: Vec<&Row> = t.rows.values().collect();
            if !rows.is_empty() && vs.class % 3 != 0 {
                let r = rows[(vs.int_sel.unsigned_abs() as usize) % rows.len()];
                return r[ci].clone();
            }
            let mut c = t.cols[ci].clone();
            c.nullable = false;
            self.valid_value(&c, vs)
        };
        let c1 = pick(seed.col, n);
        let c2 = pick(seed.col2, n);
        let col = |i: usize| E::Col(t.cols[i].name.clone());
        let l1 = E::Lit(lit_for(c1, &seed.val));
        let l2 = E::Lit(lit_for(c2, &seed.val2));
        // ordered comparisons are guarded so that a null cell never meets a
        // non-null literal (cross-type order is unspecified)
        let guarded = |op: Bin, ci: usize, lit: E| -> E {
            let cmp = E::bin(op, col(ci), lit.clone());
            if matches!(lit, E::Lit(V::Null)) {
                E::bin(Bin::Eq, col(ci), lit)
            } else if t.cols[ci].nullable {
                E::bin(Bin::And, E::bin(Bin::Ne, col(ci), E::Lit(V::Null)), cmp)
            } else {
                cmp
            }
        };
        // kinds from 192 up: the cell itself (or a unary operator on it) is
        // the condition; the lower kinds keep their meaning so that stored
        // regress cases still say what they said
        if seed.kind >= 192 {
            return Some(match (seed.kind - 192) % 8 {
                0 | 1 => col(c1),
                2 => E::un(Un::Neg, E::un(Un::Neg, col(c1))),
                3 => E::un(Un::BitNot, E::un(Un::BitNot, col(c1))),
                4 => E::un(Un::Not, col(c1)),
                5 => E::bin(Bin::And, col(c1), E::bin(Bin::Ne, col(c2), l2)),
                6 => E::bin(Bin::Or, col(c1), E::bin(Bin::Eq, col(c2), l2)),
                _ => E::bin(Bin::Add, col(c1), l1),
            });
        }
        Some(match seed.kind % 12 {
            0 | 1 => return None,
            2 | 3 => E::bin(Bin::Eq, col(c1), l1),
            4 => E::bin(Bin::Ne, col(c1), l1),
            5 => guarded(Bin::Lt, c1, l1),
            6 => guarded(Bin::Ge, c1, l1),
            7 => E::bin(Bin::Or, E::bin(Bin::Eq, col(c1), l1), E::bin(Bin::Eq, col(c2), l2)),
            8 => E::bin(Bin::And, guarded(Bin::Le, c1, l1), E::bin(Bin::Ne, col(c2), l2)),
            9 => E::un(Un::Not, E::bin(Bin::Eq, col(c1), l1)),
            10 => E::bin(Bin::Eq, col(c1), E::Lit(V::Null)),
            _ => E::bin(Bin::Gt, E::bin(Bin::Add, col(c1), l1.clone()), l1),
        })
    }

    /// Per model row (in key order): Some(true) matches, Some(false) does
    /// not, None = the documentation leaves it open.
    pub fn matches(t: &MTable, cond: &Option<E>) -> Vec<Option<bool>> {
        t.rows
            .values()
            .map(|r| match cond {
                None => Some(true),
                Some(e) => {
                    let lookup = |c: &str| -> V { t.col_index(c).map(|i| r[i].clone()).unwrap_or(V::Null) };
                    let acc = eval_ref(e, &lookup);
                    let tr: Vec<bool> = acc.iter().map(|v| v.truthy()).collect();
                    if tr.iter().all(|x| *x) {
                        Some(true)
                    } else if tr.iter().all(|x| !*x) {
                        Some(false)
                    } else {
                        None
                    }
                }
            })
            .collect()
    }

    fn nth_table(&self, sel: u16) -> Option<String> {
        let names: Vec<&String> = self.model.tables.keys().collect();
        if names.is_empty() {
            None
        } else {
            Some(names[pick(sel, names.len())].clone())
        }
    }

    fn summary_string(&self, seed: &ValSeed) -> String {
        let page = cpref::page_by_id(self.model.summary.codepage).expect("known page");
        let s = self.plain_string(seed.str_sel, page);
        let mut s = if s.is_empty() { "s".to_string() } else { s };
        // summary strings are length-prefixed: U+0000 is an ordinary
        // character in them, also at the end
        match seed.class % 32 {
            11 => s.push('\0'),
            12 => s.insert(0, '\0'),
            13 => s.push_str("\0\0"),
            _ => {}
        }
        s
    }

    // -- applying one op --------------------------------------------------- //

    /// Applies one op to the package and the model.  `p` is the id of the
    /// property whose check is running (for signatures).  An unexpected `Err`
    /// of an operation the model predicts to succeed is a failure.
    pub fn apply(&mut self, p: &str, op: &OpSeed) -> Result<Outcome, Fail> {
        match op {
            OpSeed::CreateTable { name, cols } => {
                let tname = TABLE_NAMES[pick(*name, TABLE_NAMES.len())].to_string();
                if self.model.tables.contains_key(&tname) {
                    self.skipped += 1;
                    return Ok(Outcome::Skipped);
                }
                let defs = self.resolve_cols(cols);
                // names and enumeration members must be representable in the database code page
                let page = self.db_page();
                let _ = page;
                self.trace.push(format!("create_table({tname}, {})", defs.iter().map(|c| format!("{}:{:?}{}{}", c.name, c.ty, if c.key { "*" } else { "" }, if c.nullable { "?" } else { "" })).collect::<Vec<_>>().join(",")));
                let built: Vec<msi::Column> = defs.iter().map(|c| c.build()).collect();
                let over_wide = defs.iter().any(|c| matches!(c.ty, Ty::Str(w) if w > 255));
                match self.pkg().create_table(tname.as_str(), built) {
                    Ok(()) => {
                        if over_wide {
                            self.classes.push("over-wide-column-accepted");
                        }
                    }
                    Err(_) if over_wide => {
                        // refusing it is fine; nothing may have changed (C04's business)
                        self.trace.pop();
                        self.skipped += 1;
                        return Ok(Outcome::Skipped);
                    }
                    Err(e) => return Err(io_fail(p, "CreateTable", &self.trace_text(), e)),
                }
                self.model.tables.insert(tname, MTable::new(defs));
                self.dirty += 1;
                Ok(Outcome::Applied)
            }
            OpSeed::DropTable { t } => {
                let Some(tname) = self.nth_table(*t) else {
                    self.skipped += 1;
                    return Ok(Outcome::Skipped);
                };
                if !self.model.tables[&tname].rows.is_empty() {
                    self.classes.push("drop-nonempty-table");
                }
                self.trace.push(format!("drop_table({tname})"));
                self.pkg().drop_table(&tname).map_err(|e| io_fail(p, "DropTable", &self.trace_text(), e))?;
                self.model.tables.remove(&tname);
                self.dirty += 1;
                Ok(Outcome::Applied)
            }
            OpSeed::Insert { t, rows } => {
                let Some(tname) = self.nth_table(*t) else {
                    self.skipped += 1;
                    return Ok(Outcome::Skipped);
                };
                let table = self.model.tables[&tname].clone();
                let mut new_rows: Vec<Row> = Vec::new();
                let mut keys = std::collections::BTreeSet::new();
                for rs in rows.iter().take(4) {
                    let row: Row = table
                        .cols
                        .iter()
                        .enumerate()
                        .map(|(i, c)| self.valid_value(c, rs.get(i).unwrap_or(&ValSeed { class: 0, int_sel: i as i32, str_sel: i as u16 })))
                        .collect();
                    let k = key_of(&table.cols, &row);
                    if table.rows.contains_key(&k) || !keys.insert(k) {
                        continue; // keep the batch valid: no duplicate keys
                    }
                    new_rows.push(row);
                }
                if new_rows.is_empty() {
                    self.skipped += 1;
                    return Ok(Outcome::Skipped);
                }
                if self.prof.try_invalid && rows.first().and_then(|r| r.first()).map(|v| v.class % 8 == 5).unwrap_or(false) {
                    // spoil one cell of the last row
                    let seed = &rows[0][0];
                    let ci = (seed.str_sel as usize) % table.cols.len();
                    let c = &table.cols[ci];
                    // near misses of the category grammars (one character away
                    // from a valid value); the first the reference rejects
                    const NEAR: [&str; 20] = ["%%PATH", "%", "%1a", "1abc", "a b", "a-b", "{12345678-1234-1234-1234-123456789abc}", "{12345678-1234-1234-1234-123456789AB}", "1.2.3.4.5", "65536.1", "1.+2", "+1", "1,,2", "65536", "abcdefghi.txt", "a.b.c.toolong", "#1a", "Abc", "aBC", "2147483648"];
                    let near = || -> Option<V> {
                        let cat = c.category?;
                        (0..NEAR.len()).map(|i| NEAR[(i + seed.int_sel.unsigned_abs() as usize) % NEAR.len()]).find(|s| crate::model::cat_ref(cat, s) == Some(false)).map(|s| V::Str(s.to_string()))
                    };
                    let bad: Option<V> = match c.ty {
                        Ty::Str(_) if c.category.is_some() && (seed.class / 8) % 2 == 1 && near().is_some() => near(),
                        Ty::I16 => Some(V::Int([32768, 65536, 70000, -32768, -40000, 65535][(seed.int_sel.unsigned_abs() % 6) as usize])),
                        Ty::I32 => Some(V::Int(i32::MIN)),
                        Ty::Str(w) if w > 0 => Some(V::Str("x".repeat(w + 1))),
                        Ty::Str(_) if !c.enums.is_empty() => Some(V::Str("NotInTheSet".into())),
                        Ty::Str(_) => Some(V::Int(1)),
                    };
                    if let Some(b) = bad {
                        if c.valid_ref(&b) == Some(false) {
                            let last = new_rows.len() - 1;
                            new_rows[last][ci] = b.clone();
                            self.classes.push("invalid-value-offered");
                            self.trace.push(format!("insert({tname}, {}) [one value invalid: {b:?} in column {}]", show_rows(&new_rows), c.name));
                            let q = Insert::into(tname.as_str()).rows(new_rows.iter().map(|r| r.iter().map(|v| v.to_msi()).collect()).collect());
                            return match self.pkg().insert_rows(q) {
                                Err(_) => Ok(Outcome::Skipped),
                                Ok(()) => Ok(Outcome::Diverged(format!("insert accepted {b:?} for column {:?}", c))),
                            };
                        }
                    }
                }
                if new_rows.len() > 1 {
                    self.classes.push("batch-insert");
                }
                if new_rows.iter().flatten().any(|v| matches!(v, V::Str(s) if s.is_empty())) {
                    self.classes.push("empty-string-cell");
                }
                if new_rows.iter().flatten().any(|v| matches!(v, V::Str(s) if s.len() > 65535)) {
                    self.classes.push("long-string");
                }
                if new_rows.iter().flatten().any(|v| matches!(v, V::Str(s) if !s.is_ascii())) {
                    self.classes.push("non-ascii-string");
                }
                self.trace.push(format!("insert({tname}, {})", show_rows(&new_rows)));
                let q = Insert::into(tname.as_str()).rows(new_rows.iter().map(|r| r.iter().map(|v| v.to_msi()).collect()).collect());
                self.pkg().insert_rows(q).map_err(|e| io_fail(p, "Insert", &self.trace_text(), e))?;
                let mt = self.model.tables.get_mut(&tname).unwrap();
                for r in new_rows {
                    mt.rows.insert(key_of(&mt.cols, &r), canon_row(&r));
                }
                self.dirty += 1;
                Ok(Outcome::Applied)
            }
            OpSeed::Update { t, sets, cond } => {
                let Some(tname) = self.nth_table(*t) else {
                    self.skipped += 1;
                    return Ok(Outcome::Skipped);
                };
                let table = self.model.tables[&tname].clone();
                let cond_e = self.resolve_cond(&table, cond);
                let m = Run::matches(&table, &cond_e);
                if m.iter().any(|x| x.is_none()) {
                    self.skipped += 1;
                    return Ok(Outcome::Skipped);
                }
                let mut assigns: Vec<(usize, V)> = Vec::new();
                for (cs, vs) in sets.iter().take(3) {
                    let ci = pick(*cs, table.cols.len());
                    if table.cols[ci].key && !self.prof.allow_key_update {
                        continue;
                    }
                    if assigns.iter().any(|a| a.0 == ci) {
                        continue;
                    }
                    assigns.push((ci, self.valid_value(&table.cols[ci], vs)));
                }
                if assigns.is_empty() {
                    self.skipped += 1;
                    return Ok(Outcome::Skipped);
                }
                let sets_key = assigns.iter().any(|a| table.cols[a.0].key);
                // model: compute the new row set
                let mut new_rows: BTreeMap<Vec<V>, Row> = BTreeMap::new();
                let mut collision = false;
                for (r, hit) in table.rows.values().zip(m.iter()) {
                    let mut nr = r.clone();
                    if *hit == Some(true) {
                        for (ci, v) in &assigns {
                            nr[*ci] = v.canon();
                        }
                    }
                    if new_rows.insert(key_of(&table.cols, &nr), nr).is_some() {
                        collision = true;
                    }
                }
                if sets_key {
                    self.classes.push("update-assigns-key");
                }
                if assigns.iter().any(|a| matches!(&a.1, V::Str(s) if s.is_empty())) {
                    self.classes.push("empty-string-cell");
                }
                self.trace.push(format!(
                    "update({tname} set {} where {})",
                    assigns.iter().map(|(ci, v)| format!("{}={:?}", table.cols[*ci].name, v)).collect::<Vec<_>>().join(","),
                    cond_e.as_ref().map(|e| e.show()).unwrap_or("-".into())
                ));
                let mut q = Update::table(tname.as_str());
                for (ci, v) in &assigns {
                    q = q.set(table.cols[*ci].name.as_str(), v.to_msi());
                }
                if let Some(e) = &cond_e {
                    // a conjunction is handed over either as one expression or
                    // as two restrictions (each with() adds one)
                    match e {
                        E::Bin(Bin::And, a, b) if cond.col2 % 2 == 0 => {
                            q = q.with(build(a)).with(build(b));
                            self.classes.push("chained-with");
                        }
                        _ => q = q.with(build(e)),
                    }
                }
                let res = self.pkg().update_rows(q);
                if collision {
                    self.classes.push("update-key-collision");
                    // accepted: Err and nothing changed.  Ok is judged by the
                    // invariant / model oracles (the model keeps the old rows).
                    if res.is_ok() {
                        return Err(Fail::new(
                            format!("{p} update-created-duplicate-keys"),
                            format!("an update assigning key columns made several rows share one key and returned Ok: {}", self.trace_text()),
                        ));
                    }
                    return Ok(Outcome::Applied);
                }
                res.map_err(|e| io_fail(p, "Update", &self.trace_text(), e))?;
                self.model.tables.get_mut(&tname).unwrap().rows = new_rows;
                self.dirty += 1;
                Ok(Outcome::Applied)
            }
            OpSeed::Delete { t, cond } => {
                let Some(tname) = self.nth_table(*t) else {
                    self.skipped += 1;
                    return Ok(Outcome::Skipped);
                };
                let table = self.model.tables[&tname].clone();
                let cond_e = self.resolve_cond(&table, cond);
                let m = Run::matches(&table, &cond_e);
                if m.iter().any(|x| x.is_none()) {
                    self.skipped += 1;
                    return Ok(Outcome::Skipped);
                }
                self.trace.push(format!("delete({tname} where {})", cond_e.as_ref().map(|e| e.show()).unwrap_or("-".into())));
                let mut q = Delete::from(tname.as_str());
                if let Some(e) = &cond_e {
                    // a conjunction is handed over either as one expression or
                    // as two restrictions (each with() adds one)
                    match e {
                        E::Bin(Bin::And, a, b) if cond.col2 % 2 == 0 => {
                            q = q.with(build(a)).with(build(b));
                            self.classes.push("chained-with");
                        }
                        _ => q = q.with(build(e)),
                    }
                }
                self.pkg().delete_rows(q).map_err(|e| io_fail(p, "Delete", &self.trace_text(), e))?;
                let keys: Vec<Vec<V>> = table.rows.keys().cloned().collect();
                let mt = self.model.tables.get_mut(&tname).unwrap();
                let mut removed = 0;
                for (k, hit) in keys.iter().zip(m.iter()) {
                    if *hit == Some(true) {
                        mt.rows.remove(k);
                        removed += 1;
                    }
                }
                if removed > 0 {
                    self.classes.push("delete-removed-rows");
                }
                self.dirty += 1;
                Ok(Outcome::Applied)
            }
            OpSeed::Select { t, cols, cond } => {
                let Some(tname) = self.nth_table(*t) else {
                    self.skipped += 1;
                    return Ok(Outcome::Skipped);
                };
                let table = self.model.tables[&tname].clone();
                let cond_e = self.resolve_cond(&table, cond);
                let m = Run::matches(&table, &cond_e);
                let proj: Vec<usize> = cols.iter().take(4).map(|c| pick(*c, table.cols.len())).collect();
                let names: Vec<String> = proj.iter().map(|i| table.cols[*i].name.clone()).collect();
                self.trace.push(format!("select({} from {tname} where {})", if names.is_empty() { "*".to_string() } else { names.join(",") }, cond_e.as_ref().map(|e| e.show()).unwrap_or("-".into())));
                let mut q = Select::table(tname.as_str());
                if !names.is_empty() {
                    q = q.columns(&names);
                }
                if let Some(e) = &cond_e {
                    // a conjunction is handed over either as one expression or
                    // as two restrictions (each with() adds one)
                    match e {
                        E::Bin(Bin::And, a, b) if cond.col2 % 2 == 0 => {
                            q = q.with(build(a)).with(build(b));
                            self.classes.push("chained-with");
                        }
                        _ => q = q.with(build(e)),
                    }
                }
                let trace = self.trace_text();
                let rows = self.pkg().select_rows(q).map_err(|e| io_fail(p, "Select", &trace, e))?;
                let announced = rows.len();
                let got: Vec<Row> = rows.map(|r| (0..r.len()).map(|i| V::from_msi(&r[i]).canon()).collect()).collect();
                if got.len() != announced {
                    return Err(Fail::new(format!("{p} select-length"), format!("select announced {announced} rows and yielded {}: {trace}", got.len())));
                }
                // expected: model rows in key order, filtered, projected
                let project = |r: &Row| -> Row {
                    if proj.is_empty() {
                        r.clone()
                    } else {
                        proj.iter().map(|i| r[*i].clone()).collect()
                    }
                };
                // rows whose truth value the documentation leaves open may or may
                // not appear: track every position in `got` that is consistent so far
                let mut reachable: std::collections::BTreeSet<usize> = [0usize].into_iter().collect();
                for (r, hit) in table.rows.values().zip(m.iter()) {
                    let want = project(r);
                    let mut next = std::collections::BTreeSet::new();
                    for g in &reachable {
                        let matches_here = got.get(*g) == Some(&want);
                        match hit {
                            Some(true) => {
                                if matches_here {
                                    next.insert(g + 1);
                                }
                            }
                            Some(false) => {
                                next.insert(*g);
                            }
                            None => {
                                next.insert(*g);
                                if matches_here {
                                    next.insert(g + 1);
                                }
                            }
                        }
                    }
                    if next.is_empty() {
                        return Err(Fail::new(format!("{p} select-wrong-rows"), format!("select result {got:?} is not the model's filtered, key-ordered, projected rows (first inconsistency at model row {:?}): {trace}", want)));
                    }
                    reachable = next;
                }
                if !reachable.contains(&got.len()) {
                    return Err(Fail::new(format!("{p} select-wrong-rows"), format!("select returned {} rows, which is not what the model's rows allow: {trace}; got {:?}", got.len(), got)));
                }
                if m.iter().any(|x| *x == Some(true)) && m.iter().any(|x| *x == Some(false)) {
                    self.classes.push("select-splits-rows");
                }
                Ok(Outcome::Selected)
            }
            OpSeed::WriteStream { name, len, fill } => {
                let sname = STREAM_NAMES[pick(*name, STREAM_NAMES.len())].to_string();
                let lens = [0usize, 1, 63, 64, 4095, 4096, 4097, 8191, 8192, 8193, 20000];
                let n = lens[pick(*len, lens.len())];
                let data: Vec<u8> = (0..n).map(|i| fill.wrapping_add((i % 251) as u8)).collect();
                if self.model.streams.contains_key(&sname) {
                    self.classes.push("stream-overwrite");
                }
                self.trace.push(format!("write_stream({sname}, {n} bytes)"));
                let trace = self.trace_text();
                {
                    let mut w = self.pkg().write_stream(&sname).map_err(|e| io_fail(p, "WriteStream", &trace, e))?;
                    let mut at = 0;
                    for piece in piece_lengths(data.len(), *fill) {
                        w.write_all(&data[at..at + piece]).map_err(|e| io_fail(p, "WriteStream", &trace, e))?;
                        at += piece;
                    }
                    w.flush().map_err(|e| io_fail(p, "WriteStream", &trace, e))?;
                }
                self.model.streams.insert(sname, data);
                self.dirty += 1;
                Ok(Outcome::Applied)
            }
            OpSeed::RemoveStream { s } => {
                let names: Vec<String> = self.model.streams.keys().cloned().collect();
                if names.is_empty() {
                    self.skipped += 1;
                    return Ok(Outcome::Skipped);
                }
                let sname = names[pick(*s, names.len())].clone();
                self.trace.push(format!("remove_stream({sname})"));
                let trace = self.trace_text();
                self.pkg().remove_stream(&sname).map_err(|e| io_fail(p, "RemoveStream", &trace, e))?;
                self.model.streams.remove(&sname);
                self.dirty += 1;
                Ok(Outcome::Applied)
            }
            OpSeed::Summary { prop, clear, val } => {
                let s = self.summary_string(val);
                let which = prop % 10;
                self.trace.push(format!("summary(prop {which}, {})", if *clear { "clear".to_string() } else { format!("{:?}/{}", s, val.int_sel) }));
                let clear = *clear;
                let int_sel = val.int_sel;
                let sm = &mut self.model.summary;
                let info = self.pkg.as_mut().unwrap().summary_info_mut();
                match which {
                    0 => {
                        if clear { info.clear_title(); sm.title = None } else { info.set_title(s.clone()); sm.title = Some(s) }
                    }
                    1 => {
                        if clear { info.clear_subject(); sm.subject = None } else { info.set_subject(s.clone()); sm.subject = Some(s) }
                    }
                    2 => {
                        if clear { info.clear_author(); sm.author = None } else { info.set_author(s.clone()); sm.author = Some(s) }
                    }
                    3 => {
                        if clear { info.clear_comments(); sm.comments = None } else { info.set_comments(s.clone()); sm.comments = Some(s) }
                    }
                    4 => {
                        if clear { info.clear_creating_application(); sm.app = None } else { info.set_creating_application(s.clone()); sm.app = Some(s) }
                    }
                    5 => {
                        if clear {
                            info.clear_uuid();
                            sm.uuid = None
                        } else {
                            let u = uuid::Uuid::from_u128((int_sel as u32 as u128).wrapping_mul(0x0001_0001_0001_0001_0001_0001_0001u128).wrapping_add(7));
                            info.set_uuid(u);
                            sm.uuid = Some(u.hyphenated().to_string());
                        }
                    }
                    6 => {
                        if clear { info.clear_word_count(); sm.word_count = None } else { info.set_word_count(int_sel); sm.word_count = Some(int_sel) }
                    }
                    7 => {
                        if clear {
                            info.clear_creation_time();
                            sm.ctime_ticks = None
                        } else {
                            // on a tick boundary (sub-tick rounding is C18's subject)
                            let secs = (int_sel as i64).abs() * 3 + 1_000_000_000;
                            let nanos = ((int_sel.unsigned_abs() % 10_000_000) * 100) as u32;
                            info.set_creation_time(UNIX_EPOCH + Duration::new(secs as u64, nanos));
                            sm.ctime_ticks = Some((crate::observe::TICKS_1601_TO_1970 + secs as i128 * 10_000_000 + (nanos / 100) as i128) as u64);
                        }
                    }
                    8 => {
                        if clear {
                            info.clear_arch();
                            sm.arch = None
                        } else {
                            let a = ["x64", "Intel", "Arm64", "Intel64"][(int_sel.unsigned_abs() % 4) as usize];
                            info.set_arch(a);
                            sm.arch = Some(a.to_string());
                        }
                    }
                    _ => {
                        if clear {
                            info.clear_languages();
                            sm.langs.clear()
                        } else {
                            let codes: Vec<u16> = match int_sel.unsigned_abs() % 4 {
                                0 => vec![1033],
                                1 => vec![1033, 1036],
                                2 => vec![0],
                                _ => vec![(int_sel as u32 % 65536) as u16, 65535],
                            };
                            let langs: Vec<Language> = codes.iter().map(|c| Language::from_code(*c)).collect();
                            info.set_languages(&langs);
                            sm.langs = codes;
                        }
                    }
                }
                self.dirty += 1;
                Ok(Outcome::Applied)
            }
            OpSeed::SummaryCodepage(sel) => {
                if !self.prof.codepages {
                    self.skipped += 1;
                    return Ok(Outcome::Skipped);
                }
                let page = &cpref::PAGES[pick(*sel, cpref::PAGES.len())];
                let sm = &self.model.summary;
                let live: Vec<&String> = [&sm.title, &sm.subject, &sm.author, &sm.comments, &sm.app].into_iter().flatten().collect();
                if live.iter().any(|s| s.chars().any(|c| !page.representable(c))) {
                    self.skipped += 1;
                    return Ok(Outcome::Skipped);
                }
                self.trace.push(format!("summary_codepage({})", page.id));
                self.pkg().summary_info_mut().set_codepage(page.cp);
                self.model.summary.codepage = page.id;
                self.classes.push("summary-codepage-switch");
                self.dirty += 1;
                Ok(Outcome::Applied)
            }
            OpSeed::DbCodepage(sel) => {
                if !self.prof.codepages {
                    self.skipped += 1;
                    return Ok(Outcome::Skipped);
                }
                let page = &cpref::PAGES[pick(*sel, cpref::PAGES.len())];
                if self.model.live_strings().iter().any(|s| s.chars().any(|c| !page.representable(c))) {
                    self.skipped += 1;
                    return Ok(Outcome::Skipped);
                }
                self.trace.push(format!("db_codepage({})", page.id));
                self.pkg().set_database_codepage(page.cp);
                self.model.db_cp = page.id;
                self.classes.push("db-codepage-switch");
                self.dirty += 1;
                Ok(Outcome::Applied)
            }
            OpSeed::Flush => {
                self.trace.push("flush".into());
                let trace = self.trace_text();
                self.pkg().flush().map_err(|e| io_fail(p, "Flush", &trace, e))?;
                Ok(Outcome::Applied)
            }
            OpSeed::Reopen(sel) => {
                let mode = close_mode(*sel);
                let (before, after, bytes) = self.reopen(p, mode)?;
                Ok(Outcome::Reopened(mode, before, after, bytes))
            }
        }
    }

    /// Closes the package in the given way and reopens the resulting bytes.
    /// Returns the API snapshot just before closing, the snapshot of the
    /// reopened package and the saved bytes.  A reopen that fails is a `Fail`.
    pub fn reopen(&mut self, p: &str, mode: CloseMode) -> Result<(Snapshot, Snapshot, Vec<u8>), Fail> {
        self.trace.push(format!("reopen({mode:?})"));
        let trace = self.trace_text();
        let before = self.snapshot(p)?;
        let bytes = match mode {
            CloseMode::FlushAndCopy => {
                self.pkg().flush().map_err(|e| io_fail(p, "Flush", &trace, e))?;
                // the medium at the instant flush returned: only what the
                // library pushed through the medium's own flush() is durable
                let b = self.buf.durable_bytes();
                self.pkg = None;
                b
            }
            CloseMode::IntoInner => {
                let pkg = self.pkg.take().unwrap();
                let inner = pkg.into_inner().map_err(|e| io_fail(p, "IntoInner", &trace, e))?;
                inner.bytes()
            }
            CloseMode::Drop => {
                self.pkg = None;
                self.buf.bytes()
            }
        };
        self.buf = SharedBuf::new(bytes.clone());
        let pkg = Package::open(self.buf.clone()).map_err(|e| {
            Fail::new(format!("{p} reopen-error mode={mode:?}"), format!("the saved file does not open ({e}) after: {trace}"))
        })?;
        self.pkg = Some(pkg);
        let after = self.snapshot(p)?;
        self.dirty = 0;
        Ok((before, after, bytes))
    }

    pub fn summary_now(&mut self) -> MSummary {
        observe_summary(self.pkg().summary_info())
    }
}

pub fn show_rows(rows: &[Row]) -> String {
    let show_v = |v: &V| -> String {
        match v {
            V::Str(s) if s.len() > 40 => format!("<{}-byte string {:?}...>", s.len(), s.chars().take(8).collect::<String>()),
            other => format!("{:?}", other),
        }
    };
    rows.iter().map(|r| format!("[{}]", r.iter().map(show_v).collect::<Vec<_>>().join(","))).collect::<Vec<_>>().join(",")
}

// ------------------------------------------------------------------------- //
// Strategies.

pub fn val_seed() -> impl Strategy<Value = ValSeed> {
    (any::<u8>(), prop_oneof![3 => any::<i32>(), 1 => -3i32..40], any::<u16>()).prop_map(|(class, int_sel, str_sel)| ValSeed { class, int_sel, str_sel })
}

pub fn col_seed() -> impl Strategy<Value = ColSeed> {
    (any::<u8>(), any::<u8>(), any::<bool>(), prop::bool::weighted(0.2), prop::bool::weighted(0.2), any::<u8>(), any::<u8>(), any::<u8>())
        .prop_map(|(ty, width, nullable, key, localizable, range, cat, enums)| ColSeed { ty, width, nullable, key, localizable, range, cat, enums })
}

/// How the content of a write reaches the stream writer (pattern = `fill % 6`).
pub fn piece_lengths(total: usize, fill: u8) -> Vec<usize> {
    let mut out = Vec::new();
    let mut left = total;
    let mut push = |n: usize, left: &mut usize| {
        let n = n.min(*left);
        if n > 0 {
            out.push(n);
            *left -= n;
        }
    };
    match fill % 6 {
        0 | 1 => push(total, &mut left),
        2 => {
            let mut i = 0usize;
            while left > 0 {
                push(1 + (i * 5 + fill as usize) % 97, &mut left);
                i += 1;
            }
        }
        3 => {
            push(1 + fill as usize % 50, &mut left);
            push(total, &mut left);
        }
        4 => {
            while left > 0 {
                push(4096, &mut left);
            }
        }
        _ => {
            let mut i = 0usize;
            while left > 0 {
                push(if i % 2 == 0 { 3 + fill as usize % 100 } else { 4096 + (i * 1000) % 5000 }, &mut left);
                i += 1;
            }
        }
    }
    if out.is_empty() {
        out.push(0);
    }
    out
}

pub fn cond_seed() -> impl Strategy<Value = CondSeed> {
    (any::<u8>(), any::<u16>(), val_seed(), any::<u16>(), val_seed()).prop_map(|(kind, col, val, col2, val2)| CondSeed { kind, col, val, col2, val2 })
}

/// Relative weights of the op kinds.
#[derive(Clone, Copy, Debug)]
pub struct Weights {
    pub create: u32,
    pub drop: u32,
    pub insert: u32,
    pub update: u32,
    pub delete: u32,
    pub select: u32,
    pub wstream: u32,
    pub rstream: u32,
    pub summary: u32,
    pub sum_cp: u32,
    pub db_cp: u32,
    pub flush: u32,
    pub reopen: u32,
}

pub fn op_seed(w: Weights) -> impl Strategy<Value = OpSeed> {
    let all: Vec<(u32, BoxedStrategy<OpSeed>)> = vec![
        (w.create, (any::<u16>(), prop::collection::vec(col_seed(), 1..6)).prop_map(|(name, cols)| OpSeed::CreateTable { name, cols }).boxed()),
        (w.drop, any::<u16>().prop_map(|t| OpSeed::DropTable { t }).boxed()),
        (w.insert, (any::<u16>(), prop::collection::vec(prop::collection::vec(val_seed(), 6), 1..4)).prop_map(|(t, rows)| OpSeed::Insert { t, rows }).boxed()),
        (w.update, (any::<u16>(), prop::collection::vec((any::<u16>(), val_seed()), 1..3), cond_seed()).prop_map(|(t, sets, cond)| OpSeed::Update { t, sets, cond }).boxed()),
        (w.delete, (any::<u16>(), cond_seed()).prop_map(|(t, cond)| OpSeed::Delete { t, cond }).boxed()),
        (w.select, (any::<u16>(), prop::collection::vec(any::<u16>(), 0..4), cond_seed()).prop_map(|(t, cols, cond)| OpSeed::Select { t, cols, cond }).boxed()),
        (w.wstream, (any::<u16>(), any::<u16>(), any::<u8>()).prop_map(|(name, len, fill)| OpSeed::WriteStream { name, len, fill }).boxed()),
        (w.rstream, any::<u16>().prop_map(|s| OpSeed::RemoveStream { s }).boxed()),
        (w.summary, (any::<u8>(), prop::bool::weighted(0.25), val_seed()).prop_map(|(prop, clear, val)| OpSeed::Summary { prop, clear, val }).boxed()),
        (w.sum_cp, prop_oneof![3 => any::<u16>(), 1 => Just(u16::MAX)].prop_map(OpSeed::SummaryCodepage).boxed()),
        (w.db_cp, prop_oneof![3 => any::<u16>(), 1 => Just(u16::MAX)].prop_map(OpSeed::DbCodepage).boxed()),
        (w.flush, Just(OpSeed::Flush).boxed()),
        (w.reopen, any::<u8>().prop_map(OpSeed::Reopen).boxed()),
    ];
    proptest::strategy::Union::new_weighted(all.into_iter().filter(|x| x.0 > 0).collect())
}

#[derive(Clone, Debug, Serialize, Deserialize, Hash, PartialEq, Eq)]
pub struct SeqCase {
    pub ptype: u8,
    pub ops: Vec<OpSeed>,
    /// how the package is closed at the end
    pub final_close: u8,
}

pub fn seq_case(w: Weights, max_ops: usize) -> impl Strategy<Value = SeqCase> {
    // most sequences start by creating a table or two, so that the DML ops
    // that follow have something to bind to
    let create = (any::<u16>(), prop::collection::vec(col_seed(), 1..6)).prop_map(|(name, cols)| OpSeed::CreateTable { name, cols });
    (0u8..3, prop::collection::vec(create, 0..3), prop::collection::vec(op_seed(w), 0..max_ops), any::<u8>()).prop_map(|(ptype, mut prefix, ops, final_close)| {
        prefix.extend(ops);
        SeqCase { ptype, ops: prefix, final_close }
    })
}
