//! known_findings.json: `open` entries (genuine defects recorded, not
//! repaired) and `fixed` entries (repaired by a "fix:" commit).  Read only;
//! never written at run time.

use serde::Deserialize;
use serde_json::Value as J;

#[derive(Clone, Debug, Deserialize)]
pub struct OpenFinding {
    pub property: String,
    /// Exact signature produced by the oracle for the minimal failing case.
    pub signature: String,
    /// Other signatures that are the same root cause seen through another
    /// observation (exact match as well).
    #[serde(default)]
    pub also: Vec<String>,
    pub what: String,
    /// Trigger classes the interpreters steer around in other profiles.
    #[serde(default)]
    pub triggers: Vec<String>,
    /// Minimal case, in replay-file form, used to probe whether the finding is
    /// still present.
    #[serde(default)]
    pub probe: J,
}

#[derive(Clone, Debug, Deserialize)]
pub struct FixedFinding {
    pub property: String,
    pub commit: String,
    pub what: String,
    #[serde(default)]
    pub line: String,
}

#[derive(Clone, Debug, Default, Deserialize)]
pub struct Findings {
    #[serde(default)]
    pub open: Vec<OpenFinding>,
    #[serde(default)]
    pub fixed: Vec<FixedFinding>,
}

impl Findings {
    pub fn load(verif_dir: &str) -> Findings {
        let path = format!("{}/known_findings.json", verif_dir);
        match std::fs::read_to_string(&path) {
            Ok(text) => match serde_json::from_str::<Findings>(&text) {
                Ok(f) => f,
                Err(e) => {
                    eprintln!("cannot parse {}: {}", path, e);
                    std::process::exit(2);
                }
            },
            Err(_) => Findings::default(),
        }
    }

    pub fn is_open(&self, property: &str, sig: &str) -> bool {
        self.open.iter().any(|f| {
            f.property == property
                && (f.signature == sig || f.also.iter().any(|s| s == sig))
        })
    }

    /// True when some open finding (of any property) declares this trigger
    /// class; interpreters of non-owning properties then steer around it.
    pub fn has_trigger(&self, trigger: &str) -> bool {
        self.open.iter().any(|f| f.triggers.iter().any(|t| t == trigger))
    }

    pub fn open_for<'a>(&'a self, property: &'a str) -> impl Iterator<Item = &'a OpenFinding> + 'a {
        self.open.iter().filter(move |f| f.property == property)
    }
}
