//! Shared plumbing: run context, statistics, sharded proptest search,
//! panic capture, violations and evidence.

use proptest::strategy::Strategy;
use proptest::test_runner::{
    Config, RngAlgorithm, TestCaseError, TestError, TestRng, TestRunner,
};
use serde::Serialize;
use serde_json::{json, Value as J};
use std::cell::RefCell;
use std::collections::hash_map::DefaultHasher;
use std::collections::{BTreeMap, HashSet};
use std::hash::{Hash, Hasher};
use std::panic::{self, AssertUnwindSafe};
use std::sync::Mutex;
use std::time::Instant;

use crate::findings::Findings;

pub const SHARDS: u32 = 16;

#[derive(Clone, Copy, Debug, PartialEq, Eq)]
pub enum Tier {
    Quick,
    Thorough,
}

impl Tier {
    pub fn name(self) -> &'static str {
        match self {
            Tier::Quick => "quick",
            Tier::Thorough => "thorough",
        }
    }
    pub fn pick<T>(self, quick: T, thorough: T) -> T {
        match self {
            Tier::Quick => quick,
            Tier::Thorough => thorough,
        }
    }
}

pub struct Ctx {
    pub property: String,
    pub tier: Tier,
    pub seed: u64,
    pub findings: Findings,
    pub verif_dir: String,
    /// Strict replay: known findings are *not* excused (used by --replay).
    pub strict: bool,
}

impl Ctx {
    pub fn is_known(&self, sig: &str) -> bool {
        !self.strict && self.findings.is_open(&self.property, sig)
    }
}

// ------------------------------------------------------------------------- //

/// A failed oracle: `sig` is the canonical structural signature (matched
/// against known_findings.json), `detail` is free text for the human.
#[derive(Clone, Debug)]
pub struct Fail {
    pub sig: String,
    pub detail: String,
}

impl Fail {
    pub fn new<S: Into<String>, D: Into<String>>(sig: S, detail: D) -> Fail {
        Fail { sig: sig.into(), detail: detail.into() }
    }
}

pub type Check = Result<(), Fail>;

#[derive(Clone, Debug)]
pub struct Violation {
    pub sig: String,
    pub detail: String,
    /// Self-contained case: {"kind": <sub-check>, "case": <serialised input>}
    pub case: J,
}

// ------------------------------------------------------------------------- //

#[derive(Default, Clone)]
pub struct Stats {
    pub evaluations: u64,
    pub nontrivial: HashSet<u64>,
    pub classes: BTreeMap<String, u64>,
    pub samples: Vec<J>,
    pub excluded_known: u64,
    pub steered_known: u64,
    pub exhaustive: Option<bool>,
    pub notes: Vec<String>,
}

impl Stats {
    pub fn new() -> Stats {
        Stats::default()
    }
    pub fn eval(&mut self) {
        self.evaluations += 1;
    }
    pub fn evals(&mut self, n: u64) {
        self.evaluations += n;
    }
    pub fn class(&mut self, name: &str) {
        *self.classes.entry(name.to_string()).or_insert(0) += 1;
    }
    pub fn class_n(&mut self, name: &str, n: u64) {
        *self.classes.entry(name.to_string()).or_insert(0) += n;
    }
    pub fn nontrivial<H: Hash>(&mut self, item: &H) {
        self.nontrivial.insert(hash_of(item));
    }
    pub fn sample(&mut self, v: J) {
        if self.samples.len() < 6 {
            self.samples.push(v);
        }
    }
    pub fn wants_sample(&self) -> bool {
        self.samples.len() < 6
    }
    pub fn merge(&mut self, other: Stats) {
        self.evaluations += other.evaluations;
        self.nontrivial.extend(other.nontrivial);
        for (k, v) in other.classes {
            *self.classes.entry(k).or_insert(0) += v;
        }
        for s in other.samples {
            self.sample(s);
        }
        self.excluded_known += other.excluded_known;
        self.steered_known += other.steered_known;
        self.notes.extend(other.notes);
    }
}

pub fn hash_of<H: Hash>(item: &H) -> u64 {
    let mut h = DefaultHasher::new();
    item.hash(&mut h);
    h.finish()
}

pub fn mix_seed(seed: u64, label: &str, shard: u32) -> [u8; 32] {
    let mut out = [0u8; 32];
    for i in 0..4u64 {
        let v = hash_of(&(seed, label, shard, i, 0x6d73_6976_6572_6966u64));
        out[(i as usize) * 8..(i as usize + 1) * 8]
            .copy_from_slice(&v.to_le_bytes());
    }
    out
}

// ------------------------------------------------------------------------- //
// Panic capture.

thread_local! {
    static LAST_PANIC: RefCell<Option<(String, String)>> = const { RefCell::new(None) };
}

/// The first `max` bytes of `s`, cut back to a character boundary (messages
/// quote generated text, which is full of multi-byte characters).
pub fn clip(s: &str, max: usize) -> &str {
    if s.len() <= max {
        return s;
    }
    let mut cut = max;
    while !s.is_char_boundary(cut) {
        cut -= 1;
    }
    &s[..cut]
}

pub fn install_panic_hook() {
    panic::set_hook(Box::new(|info| {
        let loc = match info.location() {
            Some(l) => format!("{}:{}", short_path(l.file()), l.line()),
            None => "unknown".to_string(),
        };
        let msg = if let Some(s) = info.payload().downcast_ref::<&str>() {
            s.to_string()
        } else if let Some(s) = info.payload().downcast_ref::<String>() {
            s.clone()
        } else {
            "<non-string panic>".to_string()
        };
        if std::env::var("VERIF_PANIC_TRACE").is_ok() {
            eprintln!("panic at {loc}: {msg}");
        }
        LAST_PANIC.with(|l| *l.borrow_mut() = Some((loc, msg)));
    }));
}

/// Shortens a source path to something stable across machines:
/// `/repo/src/internal/x.rs` -> `src/internal/x.rs`,
/// `~/.cargo/registry/src/<hash>/cfb-0.10.0/src/y.rs` -> `cfb-0.10.0/src/y.rs`.
pub fn short_path(p: &str) -> String {
    if let Some(i) = p.find("/registry/src/") {
        let rest = &p[i + "/registry/src/".len()..];
        if let Some(j) = rest.find('/') {
            return rest[j + 1..].to_string();
        }
    }
    if let Some(rest) = p.strip_prefix("/repo/") {
        return rest.to_string();
    }
    if let Some(i) = p.find("/library/") {
        return format!("std{}", &p[i + "/library".len()..]);
    }
    if let Some(i) = p.find("msiverif/src/") {
        return format!("harness/{}", &p[i + "msiverif/src/".len()..]);
    }
    p.to_string()
}

/// Runs `f`, turning a panic into `Err((location, message))`.
pub fn catch<R>(f: impl FnOnce() -> R) -> Result<R, (String, String)> {
    LAST_PANIC.with(|l| *l.borrow_mut() = None);
    match panic::catch_unwind(AssertUnwindSafe(f)) {
        Ok(r) => Ok(r),
        Err(_) => {
            let got = LAST_PANIC.with(|l| l.borrow_mut().take());
            Err(got.unwrap_or(("unknown".into(), "unknown".into())))
        }
    }
}

/// True when the panic came from the harness itself (a bug in the machinery,
/// reported as exit 2, never as a violation).
pub fn is_harness_panic(loc: &str) -> bool {
    loc.starts_with("harness/")
}

/// Runs `f`; a panic inside becomes a `Fail` with signature
/// `<property> panic at=<location>`.
pub fn no_panic<R>(property: &str, what: &str, f: impl FnOnce() -> R) -> Result<R, Fail> {
    match catch(f) {
        Ok(r) => Ok(r),
        Err((loc, msg)) => {
            if is_harness_panic(&loc) {
                eprintln!("HARNESS BUG: panic at {} during {}: {}", loc, what, msg);
                std::process::exit(2);
            }
            Err(Fail::new(
                format!("{} panic at={}", property, loc),
                format!("panic during {}: {} ({})", what, msg, loc),
            ))
        }
    }
}

// ------------------------------------------------------------------------- //
// Sharded proptest search.

/// Runs `cases` generated cases of `strategy` split over `SHARDS` shards (each
/// with its own runner and derived seed).  `test` is the executable property;
/// it records statistics itself.  Returns the shrunk violation of the
/// lowest-numbered failing shard, if any.
pub fn search<S, F>(
    ctx: &Ctx,
    label: &str,
    cases: u32,
    make_strategy: impl Fn() -> S + Sync,
    test: F,
    stats: &mut Stats,
) -> Option<Violation>
where
    S: Strategy,
    S::Value: Serialize + std::fmt::Debug + Clone,
    F: Fn(&S::Value, &mut Stats) -> Check + Sync,
{
    let per_shard = cases.div_ceil(SHARDS).max(1);
    let results: Mutex<Vec<(u32, Stats, Option<Violation>)>> = Mutex::new(Vec::new());
    let threads = std::thread::available_parallelism().map(|n| n.get()).unwrap_or(4).min(SHARDS as usize);
    let next = std::sync::atomic::AtomicU32::new(0);
    std::thread::scope(|scope| {
        for _ in 0..threads {
            scope.spawn(|| loop {
                let shard = next.fetch_add(1, std::sync::atomic::Ordering::SeqCst);
                if shard >= SHARDS {
                    break;
                }
                let (st, viol) = run_shard(ctx, label, shard, per_shard, &make_strategy, &test);
                results.lock().unwrap().push((shard, st, viol));
            });
        }
    });
    let mut results = results.into_inner().unwrap();
    results.sort_by_key(|r| r.0);
    let mut first: Option<Violation> = None;
    for (_, st, viol) in results {
        stats.merge(st);
        if first.is_none() {
            first = viol;
        }
    }
    first
}

fn run_shard<S, F>(
    ctx: &Ctx,
    label: &str,
    shard: u32,
    cases: u32,
    make_strategy: &(impl Fn() -> S + Sync),
    test: &F,
) -> (Stats, Option<Violation>)
where
    S: Strategy,
    S::Value: Serialize + std::fmt::Debug + Clone,
    F: Fn(&S::Value, &mut Stats) -> Check + Sync,
{
    let config = Config {
        cases,
        failure_persistence: None,
        max_shrink_iters: 4096,
        // shrinking only makes the reported case smaller; with cases that take
        // a second each (65,535-row tables) it is cut off after a minute
        max_shrink_time: 60_000,
        max_global_rejects: 1 << 20,
        ..Config::default()
    };
    let rng = TestRng::from_seed(RngAlgorithm::ChaCha, &mix_seed(ctx.seed, label, shard));
    let mut runner = TestRunner::new_with_rng(config, rng);
    let stats = RefCell::new(Stats::new());
    let frozen = RefCell::new(false);
    let strategy = make_strategy();
    let prop = ctx.property.clone();
    let run_one = |v: &S::Value, st: &mut Stats| -> Check {
        match no_panic(&prop, label, || test(v, st)) {
            Ok(r) => r,
            Err(f) => Err(f),
        }
    };
    let outcome = runner.run(&strategy, |v| {
        let mut scratch = Stats::new();
        let is_frozen = *frozen.borrow();
        if !is_frozen && shard == 0 && stats.borrow().evaluations == 0 && stats.borrow().samples.is_empty() {
            // always keep the first generated case of the first shard as a sample
            let mut text = serde_json::to_string(&v).unwrap_or_default();
            if text.len() > 1500 {
                let mut cut = 1500;
                while !text.is_char_boundary(cut) {
                    cut -= 1;
                }
                text.truncate(cut);
                text.push_str("...(truncated)");
            }
            stats.borrow_mut().samples.push(json!({"first_generated_case": label, "case_json": text}));
        }
        let res = if is_frozen {
            run_one(&v, &mut scratch)
        } else {
            run_one(&v, &mut stats.borrow_mut())
        };
        match res {
            Ok(()) => Ok(()),
            Err(f) => {
                if ctx.is_known(&f.sig) {
                    if !is_frozen {
                        stats.borrow_mut().excluded_known += 1;
                    }
                    Ok(())
                } else {
                    *frozen.borrow_mut() = true;
                    Err(TestCaseError::fail(f.sig))
                }
            }
        }
    });
    let viol = match outcome {
        Ok(()) => None,
        Err(TestError::Fail(_, value)) => {
            let mut scratch = Stats::new();
            let f = match run_one(&value, &mut scratch) {
                Err(f) => f,
                Ok(()) => Fail::new(
                    format!("{} nondeterministic", ctx.property),
                    "shrunk case passed when re-run".to_string(),
                ),
            };
            Some(Violation {
                sig: f.sig,
                detail: f.detail,
                case: json!({"kind": label, "case": serde_json::to_value(&value).unwrap_or(J::Null)}),
            })
        }
        Err(TestError::Abort(reason)) => {
            eprintln!("search {} shard {} aborted: {}", label, shard, reason);
            std::process::exit(2);
        }
    };
    (stats.into_inner(), viol)
}

/// Runs `items` through `test` in parallel (order-preserving result: the
/// violation with the smallest index wins).  For enumerations.
pub fn par_enumerate<T, F>(
    ctx: &Ctx,
    label: &str,
    items: &[T],
    test: F,
    stats: &mut Stats,
) -> Option<Violation>
where
    T: Sync + Serialize,
    F: Fn(&T, &mut Stats) -> Check + Sync,
{
    let threads = std::thread::available_parallelism().map(|n| n.get()).unwrap_or(4).min(16);
    let chunk = items.len().div_ceil(threads).max(1);
    let results: Mutex<Vec<(usize, Stats, Option<(usize, Fail)>)>> = Mutex::new(Vec::new());
    std::thread::scope(|scope| {
        for (ci, part) in items.chunks(chunk).enumerate() {
            let results = &results;
            let test = &test;
            scope.spawn(move || {
                let mut st = Stats::new();
                let mut bad: Option<(usize, Fail)> = None;
                for (i, item) in part.iter().enumerate() {
                    let r = match no_panic(&ctx.property, label, || test(item, &mut st)) {
                        Ok(r) => r,
                        Err(f) => Err(f),
                    };
                    if let Err(f) = r {
                        if ctx.is_known(&f.sig) {
                            st.excluded_known += 1;
                        } else {
                            bad = Some((ci * chunk + i, f));
                            break;
                        }
                    }
                }
                results.lock().unwrap().push((ci, st, bad));
            });
        }
    });
    let mut results = results.into_inner().unwrap();
    results.sort_by_key(|r| r.0);
    let mut first: Option<Violation> = None;
    for (_, st, bad) in results {
        stats.merge(st);
        if first.is_none() {
            if let Some((idx, f)) = bad {
                first = Some(Violation {
                    sig: f.sig,
                    detail: f.detail,
                    case: json!({"kind": label, "case": serde_json::to_value(&items[idx]).unwrap_or(J::Null)}),
                });
            }
        }
    }
    first
}

// ------------------------------------------------------------------------- //

pub struct Report {
    pub level: &'static str,
    pub rule: String,
    pub assumptions: Vec<String>,
    pub stats: Stats,
    pub violations: Vec<Violation>,
    pub known_lines: Vec<String>,
    pub extra: BTreeMap<String, J>,
}

impl Report {
    pub fn new(level: &'static str, rule: &str) -> Report {
        Report {
            level,
            rule: rule.to_string(),
            assumptions: Vec::new(),
            stats: Stats::new(),
            violations: Vec::new(),
            known_lines: Vec::new(),
            extra: BTreeMap::new(),
        }
    }
    pub fn push(&mut self, v: Option<Violation>) {
        if let Some(v) = v {
            self.violations.push(v);
        }
    }
    pub fn failed(&self) -> bool {
        !self.violations.is_empty()
    }
}

pub fn write_evidence(ctx: &Ctx, report: &Report, started: Instant) {
    let st = &report.stats;
    let mut coverage = serde_json::Map::new();
    coverage.insert("evaluations".into(), json!(st.evaluations));
    coverage.insert("distinct_nontrivial".into(), json!(st.nontrivial.len()));
    coverage.insert("rule".into(), json!(report.rule));
    coverage.insert("samples".into(), J::Array(st.samples.clone()));
    coverage.insert("classes".into(), json!(st.classes));
    coverage.insert("excluded_known".into(), json!(st.excluded_known));
    coverage.insert("steered_known".into(), json!(st.steered_known));
    if let Some(e) = st.exhaustive {
        coverage.insert("exhaustive".into(), json!(e));
    }
    if !st.notes.is_empty() {
        coverage.insert("notes".into(), json!(st.notes));
    }
    for (k, v) in &report.extra {
        coverage.insert(k.clone(), v.clone());
    }
    let ev = json!({
        "property_id": ctx.property,
        "tier": ctx.tier.name(),
        "seed": ctx.seed,
        "level": report.level,
        "coverage": J::Object(coverage),
        "assumptions": report.assumptions,
        "wall_s": started.elapsed().as_secs_f64(),
        "violations": report.violations.len(),
        "known_findings_reported": report.known_lines,
    });
    let path = format!("{}/evidence/{}.json", ctx.verif_dir, ctx.property);
    let _ = std::fs::create_dir_all(format!("{}/evidence", ctx.verif_dir));
    std::fs::write(&path, serde_json::to_string_pretty(&ev).unwrap() + "\n")
        .unwrap_or_else(|e| {
            eprintln!("cannot write {}: {}", path, e);
            std::process::exit(2)
        });
}
