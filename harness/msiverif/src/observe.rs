//! The observer: a full snapshot of everything the public API reports.

use crate::model::{canon_row, ColDef, MSummary, Row};
use crate::refeval::V;
use msi::{Package, PackageType, Select};
use serde::{Deserialize, Serialize};
use std::collections::BTreeMap;
use std::io::{Read, Seek};
use std::time::{SystemTime, UNIX_EPOCH};

#[derive(Clone, Debug, PartialEq, Eq, Serialize, Deserialize)]
pub struct Snapshot {
    /// 0 installer, 1 patch, 2 transform
    pub ptype: u8,
    pub db_cp: i32,
    /// table name -> (columns, rows in the order `select *` yields them)
    pub tables: BTreeMap<String, (Vec<ColDef>, Vec<Row>)>,
    pub streams: BTreeMap<String, Vec<u8>>,
    pub summary: MSummary,
    pub signed: bool,
}

pub fn ptype_code(t: PackageType) -> u8 {
    match t {
        PackageType::Installer => 0,
        PackageType::Patch => 1,
        PackageType::Transform => 2,
    }
}

pub fn ptype_of(code: u8) -> PackageType {
    match code % 3 {
        0 => PackageType::Installer,
        1 => PackageType::Patch,
        _ => PackageType::Transform,
    }
}

pub const TICKS_1601_TO_1970: i128 = 116_444_736_000_000_000;

pub fn ticks_of(t: SystemTime) -> i128 {
    match t.duration_since(UNIX_EPOCH) {
        Ok(d) => TICKS_1601_TO_1970 + d.as_secs() as i128 * 10_000_000 + (d.subsec_nanos() / 100) as i128,
        Err(e) => {
            let d = e.duration();
            // exact for times the library produces (always on a tick boundary)
            TICKS_1601_TO_1970 - (d.as_secs() as i128 * 10_000_000 + (d.subsec_nanos() as i128 + 99) / 100)
        }
    }
}

pub fn observe_summary(s: &msi::SummaryInfo) -> MSummary {
    MSummary {
        codepage: s.codepage().id(),
        title: s.title().map(|x| x.to_string()),
        subject: s.subject().map(|x| x.to_string()),
        author: s.author().map(|x| x.to_string()),
        comments: s.comments().map(|x| x.to_string()),
        app: s.creating_application().map(|x| x.to_string()),
        uuid: s.uuid().map(|u| u.hyphenated().to_string()),
        word_count: s.word_count(),
        ctime_ticks: s.creation_time().map(|t| ticks_of(t).clamp(0, u64::MAX as i128) as u64),
        arch: s.arch().map(|x| x.to_string()),
        langs: s.languages().iter().map(|l| l.code()).collect(),
    }
}

/// Reads every row of `table` through `select *`, checking the iterator's
/// own consistency on the way (reported length == number yielded; `Row`
/// indexing by position and by name agree).
pub fn read_rows<F: Read + Seek>(pkg: &mut Package<F>, table: &str) -> Result<Vec<Row>, String> {
    let names: Vec<String> = match pkg.get_table(table) {
        Some(t) => t.columns().iter().map(|c| c.name().to_string()).collect(),
        None => return Err(format!("table {table:?} is listed but get_table returns None")),
    };
    let mut rows = pkg.select_rows(Select::table(table)).map_err(|e| format!("select * from {table:?} failed: {e}"))?;
    let announced = rows.len();
    let mut out = Vec::with_capacity(announced);
    let mut yielded = 0usize;
    while let Some(row) = rows.next() {
        yielded += 1;
        if rows.len() != announced - yielded {
            return Err(format!("Rows::len() of {table:?} is {} after {yielded} of {announced} rows", rows.len()));
        }
        if row.len() != names.len() {
            return Err(format!("a row of {table:?} has {} values for {} columns", row.len(), names.len()));
        }
        let mut r = Vec::with_capacity(row.len());
        for (i, n) in names.iter().enumerate() {
            let by_pos = V::from_msi(&row[i]);
            // duplicate names can occur in foreign files only; by-name lookup
            // then finds the first one
            if names.iter().position(|x| x == n) == Some(i) {
                let by_name = V::from_msi(&row[n.as_str()]);
                if by_name != by_pos {
                    return Err(format!("row[{i}] != row[{n:?}] in table {table:?}"));
                }
            }
            r.push(by_pos);
        }
        out.push(r);
    }
    if yielded != announced {
        return Err(format!("select * from {table:?} announced {announced} rows and yielded {yielded}"));
    }
    Ok(out)
}

pub fn observe<F: Read + Seek>(pkg: &mut Package<F>) -> Result<Snapshot, String> {
    let ptype = ptype_code(pkg.package_type());
    let db_cp = pkg.database_codepage().id();
    let mut defs: Vec<(String, Vec<ColDef>)> = Vec::new();
    let announced = pkg.tables().len();
    for t in pkg.tables() {
        defs.push((t.name().to_string(), t.columns().iter().map(ColDef::observe).collect()));
    }
    if defs.len() != announced {
        return Err(format!("tables() announced {announced} tables and yielded {}", defs.len()));
    }
    let mut tables = BTreeMap::new();
    for (name, cols) in defs {
        if !pkg.has_table(&name) {
            return Err(format!("table {name:?} is listed but has_table is false"));
        }
        let rows = read_rows(pkg, &name)?;
        if tables.insert(name.clone(), (cols, rows)).is_some() {
            return Err(format!("table {name:?} is listed twice"));
        }
    }
    let names: Vec<String> = pkg.streams().collect();
    let mut streams = BTreeMap::new();
    for n in names {
        if !pkg.has_stream(&n) {
            return Err(format!("stream {n:?} is listed but has_stream is false"));
        }
        let mut buf = Vec::new();
        pkg.read_stream(&n)
            .map_err(|e| format!("read_stream({n:?}) failed: {e}"))?
            .read_to_end(&mut buf)
            .map_err(|e| format!("reading stream {n:?} failed: {e}"))?;
        if streams.insert(n.clone(), buf).is_some() {
            return Err(format!("stream {n:?} is listed twice"));
        }
    }
    Ok(Snapshot { ptype, db_cp, tables, streams, summary: observe_summary(pkg.summary_info()), signed: pkg.has_digital_signature() })
}

impl Snapshot {
    /// Canonical form modulo the file format's `"" == null`.
    pub fn canon(&self) -> Snapshot {
        let mut s = self.clone();
        for (_, (_, rows)) in s.tables.iter_mut() {
            for r in rows.iter_mut() {
                *r = canon_row(r);
            }
        }
        s
    }

    /// First difference between two snapshots, as (part, description).
    pub fn diff(&self, other: &Snapshot) -> Option<(String, String)> {
        if self.ptype != other.ptype {
            return Some(("package-type".into(), format!("{} vs {}", self.ptype, other.ptype)));
        }
        if self.db_cp != other.db_cp {
            return Some(("database-codepage".into(), format!("{} vs {}", self.db_cp, other.db_cp)));
        }
        let a: Vec<&String> = self.tables.keys().collect();
        let b: Vec<&String> = other.tables.keys().collect();
        if a != b {
            return Some(("table-list".into(), format!("{a:?} vs {b:?}")));
        }
        for (name, (cols, rows)) in &self.tables {
            let (cols2, rows2) = &other.tables[name];
            if cols != cols2 {
                let i = cols.iter().zip(cols2.iter()).position(|(x, y)| x != y).unwrap_or(cols.len().min(cols2.len()));
                return Some(("schema".into(), format!("table {name:?} column #{i}: {:?} vs {:?}", cols.get(i), cols2.get(i))));
            }
            if rows != rows2 {
                let i = rows.iter().zip(rows2.iter()).position(|(x, y)| x != y).unwrap_or(rows.len().min(rows2.len()));
                return Some((
                    "rows".into(),
                    format!("table {name:?}: {} vs {} rows; first difference at row #{i}: {:?} vs {:?}", rows.len(), rows2.len(), rows.get(i), rows2.get(i)),
                ));
            }
        }
        let a: Vec<&String> = self.streams.keys().collect();
        let b: Vec<&String> = other.streams.keys().collect();
        if a != b {
            return Some(("stream-list".into(), format!("{a:?} vs {b:?}")));
        }
        for (n, data) in &self.streams {
            if data != &other.streams[n] {
                return Some(("stream-content".into(), format!("stream {n:?}: {} vs {} bytes", data.len(), other.streams[n].len())));
            }
        }
        if self.summary != other.summary {
            return Some(("summary".into(), format!("{:?} vs {:?}", self.summary, other.summary)));
        }
        if self.signed != other.signed {
            return Some(("signature".into(), format!("{} vs {}", self.signed, other.signed)));
        }
        None
    }
}
