//! Reference model: column definitions, value validity, category grammars,
//! tables keyed by primary key, streams, summary record.  Plain data; no
//! library code is called from the reference computations (only the
//! `to_msi` / `from_msi` conversions touch library types).

use crate::refeval::V;
use serde::{Deserialize, Serialize};
use std::collections::BTreeMap;

// ------------------------------------------------------------------------- //
// Categories.

pub const CATS: [(msi::Category, &str); 26] = [
    (msi::Category::Text, "Text"),
    (msi::Category::UpperCase, "UpperCase"),
    (msi::Category::LowerCase, "LowerCase"),
    (msi::Category::Integer, "Integer"),
    (msi::Category::DoubleInteger, "DoubleInteger"),
    (msi::Category::TimeDate, "TimeDate"),
    (msi::Category::Identifier, "Identifier"),
    (msi::Category::Property, "Property"),
    (msi::Category::Filename, "Filename"),
    (msi::Category::WildCardFilename, "WildCardFilename"),
    (msi::Category::Path, "Path"),
    (msi::Category::Paths, "Paths"),
    (msi::Category::AnyPath, "AnyPath"),
    (msi::Category::DefaultDir, "DefaultDir"),
    (msi::Category::RegPath, "RegPath"),
    (msi::Category::Formatted, "Formatted"),
    (msi::Category::FormattedSddlText, "FormattedSDDLText"),
    (msi::Category::Template, "Template"),
    (msi::Category::Condition, "Condition"),
    (msi::Category::Guid, "GUID"),
    (msi::Category::Version, "Version"),
    (msi::Category::Language, "Language"),
    (msi::Category::Binary, "Binary"),
    (msi::Category::CustomSource, "CustomSource"),
    (msi::Category::Cabinet, "Cabinet"),
    (msi::Category::Shortcut, "Shortcut"),
];

/// Index into `CATS`.
#[derive(Clone, Copy, Debug, PartialEq, Eq, Hash, PartialOrd, Ord, Serialize, Deserialize)]
pub struct Cat(pub u8);

impl Cat {
    pub fn to_msi(self) -> msi::Category {
        CATS[self.0 as usize].0
    }
    pub fn name(self) -> &'static str {
        CATS[self.0 as usize].1
    }
    pub fn of_msi(c: msi::Category) -> Cat {
        Cat(CATS.iter().position(|x| x.0 == c).expect("all categories listed") as u8)
    }
    pub fn by_name(n: &str) -> Option<Cat> {
        CATS.iter().position(|x| x.1 == n).map(|i| Cat(i as u8))
    }
    /// The ten categories that have a documented grammar.
    pub fn with_grammar() -> Vec<Cat> {
        ["Identifier", "Property", "GUID", "Version", "Language", "Cabinet", "Integer", "DoubleInteger", "UpperCase", "LowerCase"]
            .iter()
            .map(|n| Cat::by_name(n).unwrap())
            .collect()
    }
}

/// Verdict of the reference grammar: `None` = the documentation is silent
/// (declared don't-care set; only "no panic" is asserted there).
pub fn cat_ref(cat: Cat, s: &str) -> Option<bool> {
    fn is_ident(s: &str) -> bool {
        let mut cs = s.chars();
        match cs.next() {
            Some(c) if c.is_ascii_alphabetic() || c == '_' => {}
            _ => return false,
        }
        cs.all(|c| c.is_ascii_alphanumeric() || c == '_' || c == '.')
    }
    fn number_le(part: &str, max: u64) -> bool {
        if part.is_empty() || !part.bytes().all(|b| b.is_ascii_digit()) {
            return false;
        }
        let trimmed = part.trim_start_matches('0');
        if trimmed.len() > 20 {
            return false;
        }
        trimmed.is_empty() || trimmed.parse::<u128>().map(|v| v <= max as u128).unwrap_or(false)
    }
    fn int_text(s: &str, min: i128, max: i128) -> Option<bool> {
        if let Some(rest) = s.strip_prefix('+') {
            // a leading '+' is not mentioned by the documentation
            if !rest.is_empty() && rest.bytes().all(|b| b.is_ascii_digit()) {
                return None;
            }
            return Some(false);
        }
        let (neg, digits) = match s.strip_prefix('-') {
            Some(r) => (true, r),
            None => (false, s),
        };
        if digits.is_empty() || !digits.bytes().all(|b| b.is_ascii_digit()) {
            return Some(false);
        }
        let t = digits.trim_start_matches('0');
        if t.len() > 30 {
            return Some(false);
        }
        let mag: i128 = if t.is_empty() { 0 } else { t.parse().unwrap() };
        let v = if neg { -mag } else { mag };
        Some(v >= min && v <= max)
    }
    match cat.name() {
        "Identifier" => Some(is_ident(s)),
        "Property" => Some(is_ident(s.strip_prefix('%').unwrap_or(s))),
        "GUID" => {
            let cs: Vec<char> = s.chars().collect();
            if cs.len() != 38 || cs[0] != '{' || cs[37] != '}' {
                return Some(false);
            }
            for (i, c) in cs[1..37].iter().enumerate() {
                let hyphen = matches!(i, 8 | 13 | 18 | 23);
                if hyphen {
                    if *c != '-' {
                        return Some(false);
                    }
                } else if !(c.is_ascii_digit() || ('A'..='F').contains(c)) {
                    return Some(false);
                }
            }
            Some(true)
        }
        "Version" => {
            let parts: Vec<&str> = s.split('.').collect();
            Some(parts.len() <= 4 && parts.iter().all(|p| number_le(p, 65535)))
        }
        "Language" => Some(s.split(',').all(|p| number_le(p, 65535))),
        "Cabinet" => {
            if let Some(rest) = s.strip_prefix('#') {
                return Some(is_ident(rest));
            }
            let (base, ext) = match s.rfind('.') {
                Some(i) => (&s[..i], Some(&s[i + 1..])),
                None => (s, None),
            };
            let by_chars = !base.is_empty() && base.chars().count() <= 8 && ext.map(|e| e.chars().count() <= 3).unwrap_or(true);
            let by_bytes = !base.is_empty() && base.len() <= 8 && ext.map(|e| e.len() <= 3).unwrap_or(true);
            if by_chars == by_bytes {
                Some(by_chars)
            } else {
                None // multi-byte characters in the 8.3 part: unit of length undocumented
            }
        }
        "Integer" => int_text(s, i16::MIN as i128, i16::MAX as i128),
        "DoubleInteger" => int_text(s, i32::MIN as i128, i32::MAX as i128),
        "UpperCase" => {
            if s.chars().any(|c| c.is_ascii_lowercase()) {
                Some(false)
            } else if s.chars().any(|c| !c.is_ascii() && c.is_lowercase()) {
                None
            } else {
                Some(true)
            }
        }
        "LowerCase" => {
            if s.chars().any(|c| c.is_ascii_uppercase()) {
                Some(false)
            } else if s.chars().any(|c| !c.is_ascii() && c.is_uppercase()) {
                None
            } else {
                Some(true)
            }
        }
        _ => Some(true),
    }
}

// ------------------------------------------------------------------------- //
// Column definitions.

#[derive(Clone, Copy, Debug, PartialEq, Eq, Hash, PartialOrd, Ord, Serialize, Deserialize)]
pub enum Ty {
    I16,
    I32,
    Str(usize),
}

#[derive(Clone, Debug, PartialEq, Eq, Hash, PartialOrd, Ord, Serialize, Deserialize)]
pub struct ColDef {
    pub name: String,
    pub ty: Ty,
    pub nullable: bool,
    pub key: bool,
    pub localizable: bool,
    pub range: Option<(i32, i32)>,
    pub category: Option<Cat>,
    pub enums: Vec<String>,
    pub fk: Option<(String, i32)>,
}

impl ColDef {
    pub fn new(name: &str, ty: Ty) -> ColDef {
        ColDef { name: name.to_string(), ty, nullable: false, key: false, localizable: false, range: None, category: None, enums: vec![], fk: None }
    }
    pub fn key(mut self) -> ColDef {
        self.key = true;
        self
    }
    pub fn nullable(mut self) -> ColDef {
        self.nullable = true;
        self
    }

    /// Builds the library column through the public builder.
    pub fn build(&self) -> msi::Column {
        let mut b = msi::Column::build(self.name.as_str());
        if self.localizable {
            b = b.localizable();
        }
        if self.nullable {
            b = b.nullable();
        }
        if self.key {
            b = b.primary_key();
        }
        if let Some((lo, hi)) = self.range {
            b = b.range(lo, hi);
        }
        if let Some((t, c)) = &self.fk {
            b = b.foreign_key(t, *c);
        }
        if let Some(c) = self.category {
            b = b.category(c.to_msi());
        }
        if !self.enums.is_empty() {
            let refs: Vec<&str> = self.enums.iter().map(|s| s.as_str()).collect();
            b = b.enum_values(&refs);
        }
        match self.ty {
            Ty::I16 => b.int16(),
            Ty::I32 => b.int32(),
            Ty::Str(w) => b.string(w),
        }
    }

    /// What the public API reports about a column (foreign keys have no
    /// public getter; they are observed through `_Validation`).
    pub fn observe(c: &msi::Column) -> ColDef {
        ColDef {
            name: c.name().to_string(),
            ty: match c.coltype() {
                msi::ColumnType::Int16 => Ty::I16,
                msi::ColumnType::Int32 => Ty::I32,
                msi::ColumnType::Str(w) => Ty::Str(w),
            },
            nullable: c.is_nullable(),
            key: c.is_primary_key(),
            localizable: c.is_localizable(),
            range: c.value_range(),
            category: c.category().map(Cat::of_msi),
            enums: c.enum_values().map(|v| v.to_vec()).unwrap_or_default(),
            fk: None,
        }
    }

    /// Reference validity of a value for this column.  `None` = don't care
    /// (category don't-care set).
    pub fn valid_ref(&self, v: &V) -> Option<bool> {
        match v {
            V::Null => Some(self.nullable),
            V::Int(n) => {
                let n = *n as i64;
                let in_type = match self.ty {
                    Ty::I16 => (-32767..=32767).contains(&n),
                    Ty::I32 => (-2147483647..=2147483647).contains(&n),
                    Ty::Str(_) => false,
                };
                if !in_type {
                    return Some(false);
                }
                if let Some((lo, hi)) = self.range {
                    if n < lo as i64 || n > hi as i64 {
                        return Some(false);
                    }
                }
                Some(true)
            }
            V::Str(s) => {
                let w = match self.ty {
                    Ty::Str(w) => w,
                    _ => return Some(false),
                };
                if w != 0 && s.chars().count() > w {
                    return Some(false);
                }
                if !self.enums.is_empty() && !self.enums.iter().any(|e| e == s) {
                    return Some(false);
                }
                match self.category {
                    Some(c) => cat_ref(c, s),
                    None => Some(true),
                }
            }
        }
    }
}

// ------------------------------------------------------------------------- //
// Tables, streams, summary, whole-package model and API snapshot.

pub type Row = Vec<V>;

/// Key tuple of a row, canonical modulo `"" == null`.
pub fn key_of(cols: &[ColDef], row: &[V]) -> Vec<V> {
    cols.iter().zip(row.iter()).filter(|(c, _)| c.key).map(|(_, v)| v.canon()).collect()
}

pub fn canon_row(row: &[V]) -> Row {
    row.iter().map(|v| v.canon()).collect()
}

#[derive(Clone, Debug, PartialEq, Eq, Serialize, Deserialize)]
pub struct MTable {
    pub cols: Vec<ColDef>,
    /// key tuple -> row (both canonical).  `BTreeMap` order on `Vec<V>` is
    /// null < integers (numeric) < strings (code-point order).
    pub rows: BTreeMap<Vec<V>, Row>,
}

impl MTable {
    pub fn new(cols: Vec<ColDef>) -> MTable {
        MTable { cols, rows: BTreeMap::new() }
    }
    pub fn rows_in_order(&self) -> Vec<Row> {
        self.rows.values().cloned().collect()
    }
    pub fn col_index(&self, name: &str) -> Option<usize> {
        self.cols.iter().position(|c| c.name == name)
    }
}

#[derive(Clone, Debug, Default, PartialEq, Eq, Hash, Serialize, Deserialize)]
pub struct MSummary {
    pub codepage: i32,
    pub title: Option<String>,
    pub subject: Option<String>,
    pub author: Option<String>,
    pub comments: Option<String>,
    pub app: Option<String>,
    pub uuid: Option<String>,
    pub word_count: Option<i32>,
    /// Creation time as 100 ns ticks since 1601.
    pub ctime_ticks: Option<u64>,
    pub arch: Option<String>,
    pub langs: Vec<u16>,
}
