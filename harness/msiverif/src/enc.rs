//! E-enc: format-level generation.  An abstract database is written with the
//! independent encoder (`fmt`), with the layout freedoms the format allows:
//! 2- or 3-byte references, unused pool entries, duplicate texts, over-counted
//! references, long strings, any column order and type mix, integer columns
//! declared with width 1, unsorted rows, `_Validation` present or absent, any
//! property-set layout, extra streams, each of the three CLSIDs.

use crate::cpref;
use crate::fmt::{self, Cell, EncPoolEntry, PVal, PropLayout};
use crate::model::{Cat, ColDef, MSummary, Ty, CATS};
use crate::observe::Snapshot;
use crate::refeval::V;
use serde::{Deserialize, Serialize};
use std::collections::BTreeMap;

#[derive(Clone, Debug, Serialize, Deserialize, Hash, PartialEq, Eq)]
pub struct AbsCol {
    pub def: ColDef,
    /// declare an Int16 column with field size 1 (stored as 2 bytes all the same)
    pub width1: bool,
    /// set the nullable bit in the type word / 'Y' in _Validation
    pub nullable_in_bits: bool,
    pub nullable_in_validation: bool,
    /// write a _Validation row for this column
    pub validated: bool,
}

#[derive(Clone, Debug, Serialize, Deserialize, Hash, PartialEq, Eq)]
pub struct AbsTable {
    pub name: String,
    pub cols: Vec<AbsCol>,
    /// rows in file order (unique keys, not necessarily sorted)
    pub rows: Vec<Vec<V>>,
}

#[derive(Clone, Debug, Serialize, Deserialize, Hash, PartialEq, Eq)]
pub struct PoolOpts {
    pub long_refs: bool,
    /// insert an unused (0,0) entry before every n-th entry (0 = none)
    pub hole_every: u8,
    /// give every n-th distinct text a second entry and split its references (0 = none)
    pub dup_every: u8,
    /// add this much to the reference count of every n-th entry
    pub overcount_every: u8,
    pub overcount_by: u8,
    /// number of leading filler entries (unused holes) — pushes references
    /// above 65,535 when > 65,535 (requires long_refs)
    pub leading_holes: u32,
}

#[derive(Clone, Debug, Serialize, Deserialize, Hash, PartialEq, Eq)]
pub struct SummarySpec {
    pub values: MSummary,
    pub version: u16,
    pub header_gap: u8,
    pub gaps: Vec<u8>,
    pub reverse_values: bool,
    pub trailing: u8,
    /// property order rotation
    pub rotate: u8,
}

#[derive(Clone, Debug, Serialize, Deserialize, Hash, PartialEq, Eq)]
pub struct AbsDb {
    pub ptype: u8,
    /// as written in the pool header (0 = default, read as UTF-8)
    pub codepage_id: i32,
    pub pool: PoolOpts,
    pub tables: Vec<AbsTable>,
    pub with_validation: bool,
    pub summary: SummarySpec,
    pub streams: Vec<(String, Vec<u8>)>,
    /// `_Validation` also holds rows about a table that does not exist
    /// ("AddedTable", columns k and v), as real packages often do
    #[serde(default)]
    pub stale_validation: bool,
}

pub fn type_word(c: &AbsCol) -> i32 {
    let d = &c.def;
    let mut w = fmt::T_VALID;
    match d.ty {
        Ty::I16 => w |= if c.width1 { 1 } else { 2 } | fmt::T_NONBINARY,
        Ty::I32 => w |= 4,
        Ty::Str(n) => w |= fmt::T_STRING | (n as i32 & 0xff) | if n == 0 && d.category.map(|k| k.name()) == Some("Binary") { 0 } else { fmt::T_NONBINARY },
    }
    if c.nullable_in_bits {
        w |= fmt::T_NULLABLE;
    }
    if d.key {
        w |= fmt::T_KEY;
    }
    if d.localizable {
        w |= fmt::T_LOCALIZABLE;
    }
    w
}

pub fn validation_cols() -> Vec<(String, i32)> {
    let s = |w: i32| fmt::T_STRING | fmt::T_VALID | fmt::T_NONBINARY | w;
    vec![
        ("Table".to_string(), s(32) | fmt::T_KEY),
        ("Column".to_string(), s(32) | fmt::T_KEY),
        ("Nullable".to_string(), s(4)),
        ("MinValue".to_string(), 4 | fmt::T_VALID | fmt::T_NULLABLE),
        ("MaxValue".to_string(), 4 | fmt::T_VALID | fmt::T_NULLABLE),
        ("KeyTable".to_string(), s(255) | fmt::T_NULLABLE),
        ("KeyColumn".to_string(), 2 | fmt::T_VALID | fmt::T_NONBINARY | fmt::T_NULLABLE),
        ("Category".to_string(), s(32) | fmt::T_NULLABLE),
        ("Set".to_string(), s(255) | fmt::T_NULLABLE),
        ("Description".to_string(), s(255) | fmt::T_NULLABLE),
    ]
}

struct PoolBuilder {
    /// text -> entry indices (0-based) holding it
    index: BTreeMap<String, Vec<usize>>,
    texts: Vec<Option<String>>,
    counts: Vec<u32>,
    next_use: BTreeMap<String, usize>,
    opts: PoolOpts,
    distinct: usize,
}

impl PoolBuilder {
    fn new(opts: &PoolOpts) -> PoolBuilder {
        let mut b = PoolBuilder { index: BTreeMap::new(), texts: Vec::new(), counts: Vec::new(), next_use: BTreeMap::new(), opts: opts.clone(), distinct: 0 };
        for _ in 0..opts.leading_holes {
            b.texts.push(None);
            b.counts.push(0);
        }
        b
    }
    fn push_entry(&mut self, text: &str) -> usize {
        if self.opts.hole_every > 0 && (self.texts.len() + 1) % (self.opts.hole_every as usize + 1) == 0 {
            self.texts.push(None);
            self.counts.push(0);
        }
        self.texts.push(Some(text.to_string()));
        self.counts.push(0);
        self.texts.len() - 1
    }
    fn intern(&mut self, text: &str) -> Cell {
        if text.is_empty() {
            return Cell::Null;
        }
        if !self.index.contains_key(text) {
            self.distinct += 1;
            let mut ids = vec![self.push_entry(text)];
            if self.opts.dup_every > 0 && self.distinct % (self.opts.dup_every as usize) == 0 {
                ids.push(self.push_entry(text));
            }
            self.index.insert(text.to_string(), ids);
        }
        let ids = &self.index[text];
        let n = self.next_use.entry(text.to_string()).or_insert(0);
        let id = ids[*n % ids.len()];
        *n += 1;
        self.counts[id] += 1;
        Cell::Ref(id as u32 + 1)
    }
    fn finish(self, codepage_id: i32) -> (Vec<u8>, Vec<u8>) {
        let page = cpref::page_by_id(codepage_id).expect("supported page");
        let mut entries = Vec::with_capacity(self.texts.len());
        for (i, t) in self.texts.iter().enumerate() {
            match t {
                None => entries.push(EncPoolEntry { bytes: vec![], refcount: 0 }),
                Some(s) => {
                    let mut rc = self.counts[i];
                    if rc == 0 {
                        // a duplicate entry that ended up unused must not keep text
                        entries.push(EncPoolEntry { bytes: vec![], refcount: 0 });
                        continue;
                    }
                    if self.opts.overcount_every > 0 && (i + 1) % (self.opts.overcount_every as usize) == 0 {
                        rc += self.opts.overcount_by as u32;
                    }
                    entries.push(EncPoolEntry { bytes: page.encode(s), refcount: rc.min(65535) as u16 });
                }
            }
        }
        fmt::encode_pool(codepage_id, self.opts.long_refs, &entries)
    }
}

fn cell_of(v: &V, pool: &mut PoolBuilder) -> Cell {
    match v {
        V::Null => Cell::Null,
        V::Int(i) => Cell::Int(*i),
        V::Str(s) => pool.intern(s),
    }
}

pub fn summary_props(s: &SummarySpec) -> Vec<(u32, PVal)> {
    let m = &s.values;
    let page = cpref::page_by_id(m.codepage).expect("supported page");
    let enc = |t: &String| PVal::LpStr(page.encode(t));
    let mut props: Vec<(u32, PVal)> = vec![(1, PVal::I2(m.codepage as u16 as i16))];
    if let Some(t) = &m.title {
        props.push((2, enc(t)));
    }
    if let Some(t) = &m.subject {
        props.push((3, enc(t)));
    }
    if let Some(t) = &m.author {
        props.push((4, enc(t)));
    }
    if let Some(t) = &m.comments {
        props.push((6, enc(t)));
    }
    if m.arch.is_some() || !m.langs.is_empty() {
        let t = format!("{};{}", m.arch.clone().unwrap_or_default(), m.langs.iter().map(|l| l.to_string()).collect::<Vec<_>>().join(","));
        props.push((7, enc(&t)));
    }
    if let Some(u) = &m.uuid {
        props.push((9, enc(&format!("{{{}}}", u.to_uppercase()))));
    }
    if let Some(t) = m.ctime_ticks {
        props.push((12, PVal::FileTime(t)));
    }
    if let Some(w) = m.word_count {
        props.push((15, PVal::I4(w)));
    }
    if let Some(t) = &m.app {
        props.push((18, enc(t)));
    }
    // the code-page property must come before the strings are interpreted, but
    // its position in the table is free: rotate everything
    let n = props.len();
    props.rotate_left((s.rotate as usize) % n);
    props
}

pub fn encode_summary(s: &SummarySpec) -> Vec<u8> {
    let props = summary_props(s);
    let n = props.len();
    let layout = PropLayout {
        version: s.version % 2,
        header_gap: s.header_gap as u32 * 4,
        gaps: s.gaps.iter().map(|g| (*g as u32 % 4) * 4).collect(),
        value_order: if s.reverse_values { (0..n).rev().collect() } else { (0..n).collect() },
        trailing: (s.trailing as u32 % 4) * 4,
    };
    fmt::encode_propset(&props, &layout)
}

/// Writes the abstract database.  Returns the file bytes.
pub fn encode_db(db: &AbsDb) -> Result<Vec<u8>, String> {
    let mut pool = PoolBuilder::new(&db.pool);
    let long_refs = db.pool.long_refs;
    let mut streams: Vec<(String, Vec<u8>)> = Vec::new();
    // catalog rows
    let mut table_names: Vec<String> = db.tables.iter().map(|t| t.name.clone()).collect();
    if db.with_validation {
        table_names.push("_Validation".to_string());
    }
    let tables_rows: Vec<Vec<Cell>> = table_names.iter().map(|n| vec![pool.intern(n)]).collect();
    let mut columns_rows: Vec<Vec<Cell>> = Vec::new();
    for t in &db.tables {
        for (i, c) in t.cols.iter().enumerate() {
            columns_rows.push(vec![pool.intern(&t.name), Cell::Int(i as i32 + 1), pool.intern(&c.def.name), Cell::Int(type_word(c))]);
        }
    }
    let vcols = validation_cols();
    if db.with_validation {
        for (i, (n, w)) in vcols.iter().enumerate() {
            columns_rows.push(vec![pool.intern("_Validation"), Cell::Int(i as i32 + 1), pool.intern(n), Cell::Int(*w)]);
        }
    }
    // user tables
    for t in &db.tables {
        let words: Vec<i32> = t.cols.iter().map(type_word).collect();
        let rows: Vec<Vec<Cell>> = t.rows.iter().map(|r| r.iter().map(|v| cell_of(v, &mut pool)).collect()).collect();
        streams.push((fmt::encode_name(&t.name, true), fmt::encode_table(&rows, &words, long_refs)));
    }
    if db.with_validation {
        let mut vrows: Vec<Vec<Cell>> = Vec::new();
        for t in &db.tables {
            for c in t.cols.iter().filter(|c| c.validated) {
                let d = &c.def;
                let (lo, hi) = match d.range {
                    Some((a, b)) => (Cell::Int(a), Cell::Int(b)),
                    None => (Cell::Null, Cell::Null),
                };
                let (kt, kc) = match &d.fk {
                    Some((t, n)) => (pool.intern(t), Cell::Int(*n)),
                    None => (Cell::Null, Cell::Null),
                };
                vrows.push(vec![
                    pool.intern(&t.name),
                    pool.intern(&d.name),
                    pool.intern(if c.nullable_in_validation { "Y" } else { "N" }),
                    lo,
                    hi,
                    kt,
                    kc,
                    match d.category {
                        Some(k) => pool.intern(CATS[k.0 as usize].1),
                        None => Cell::Null,
                    },
                    if d.enums.is_empty() { Cell::Null } else { pool.intern(&d.enums.join(";")) },
                    Cell::Null,
                ]);
            }
        }
        if db.stale_validation {
            for (col, nullable) in [("k", "N"), ("v", "Y")] {
                vrows.push(vec![pool.intern("AddedTable"), pool.intern(col), pool.intern(nullable), Cell::Null, Cell::Null, Cell::Null, Cell::Null, Cell::Null, Cell::Null, Cell::Null]);
            }
        }
        let words: Vec<i32> = vcols.iter().map(|c| c.1).collect();
        streams.push((fmt::encode_name("_Validation", true), fmt::encode_table(&vrows, &words, long_refs)));
    }
    streams.push((fmt::encode_name("_Tables", true), fmt::encode_table(&tables_rows, &fmt::TABLES_TYPES, long_refs)));
    streams.push((fmt::encode_name("_Columns", true), fmt::encode_table(&columns_rows, &fmt::COLUMNS_TYPES, long_refs)));
    if !long_refs && pool.texts.len() > 65535 {
        return Err("pool too large for 2-byte references".into());
    }
    let (p, d) = pool.finish(if db.codepage_id == 0 { 0 } else { db.codepage_id });
    streams.push((fmt::encode_name("_StringPool", true), p));
    streams.push((fmt::encode_name("_StringData", true), d));
    streams.push((fmt::SUMMARY_STREAM.to_string(), encode_summary(&db.summary)));
    for (n, data) in &db.streams {
        streams.push((fmt::encode_name(n, false), data.clone()));
    }
    fmt::write_container(fmt::clsid_for(db.ptype), &streams)
}

/// What the API must report for the abstract database.
pub fn expected_snapshot(db: &AbsDb) -> Snapshot {
    let mut tables: BTreeMap<String, (Vec<ColDef>, Vec<Vec<V>>)> = BTreeMap::new();
    for t in &db.tables {
        let cols: Vec<ColDef> = t
            .cols
            .iter()
            .map(|c| {
                let validated = db.with_validation && c.validated;
                let mut d = c.def.clone();
                d.nullable = c.nullable_in_bits || (validated && c.nullable_in_validation);
                if let Ty::Str(n) = d.ty {
                    d.ty = Ty::Str(n & 0xff);
                }
                d.fk = None;
                if !validated {
                    d.range = None;
                    d.category = None;
                    d.enums = vec![];
                }
                d
            })
            .collect();
        tables.insert(t.name.clone(), (cols, t.rows.clone()));
    }
    if db.with_validation {
        // the validation table as the library describes it: schema from
        // _Columns only (it has no rows about itself here)
        let vcols: Vec<ColDef> = validation_cols()
            .into_iter()
            .map(|(n, w)| ColDef {
                name: n,
                ty: if w & fmt::T_STRING != 0 { Ty::Str((w & 0xff) as usize) } else if w & 0xff == 4 { Ty::I32 } else { Ty::I16 },
                nullable: w & fmt::T_NULLABLE != 0,
                key: w & fmt::T_KEY != 0,
                localizable: false,
                range: None,
                category: None,
                enums: vec![],
                fk: None,
            })
            .collect();
        let mut vrows = Vec::new();
        for t in &db.tables {
            for c in t.cols.iter().filter(|c| c.validated) {
                let d = &c.def;
                vrows.push(vec![
                    V::Str(t.name.clone()),
                    V::Str(d.name.clone()),
                    V::Str(if c.nullable_in_validation { "Y" } else { "N" }.to_string()),
                    d.range.map(|r| V::Int(r.0)).unwrap_or(V::Null),
                    d.range.map(|r| V::Int(r.1)).unwrap_or(V::Null),
                    d.fk.as_ref().map(|f| V::Str(f.0.clone())).unwrap_or(V::Null),
                    d.fk.as_ref().map(|f| V::Int(f.1)).unwrap_or(V::Null),
                    d.category.map(|k: Cat| V::Str(CATS[k.0 as usize].1.to_string())).unwrap_or(V::Null),
                    if d.enums.is_empty() { V::Null } else { V::Str(d.enums.join(";")) },
                    V::Null,
                ]);
            }
        }
        if db.stale_validation {
            for (col, nullable) in [("k", "N"), ("v", "Y")] {
                vrows.push(vec![V::Str("AddedTable".into()), V::Str(col.into()), V::Str(nullable.into()), V::Null, V::Null, V::Null, V::Null, V::Null, V::Null, V::Null]);
            }
        }
        tables.insert("_Validation".to_string(), (vcols, vrows));
    }
    let streams: BTreeMap<String, Vec<u8>> = db.streams.iter().cloned().collect();
    Snapshot { ptype: db.ptype % 3, db_cp: if db.codepage_id == 0 { 65001 } else { db.codepage_id }, tables, streams, summary: db.summary.values.clone(), signed: false }
}
